import LogosModel.Lex
import LogosModel.Callback
/-!
# Faithful interpreter of the generated code, with the read trace

One *visit* of a state is what the body of a generated state function / match arm does
(logos-codegen/src/generator/mod.rs `generate_state`):

```
<fast loop, if the state has an edge to itself>      fast_loop.rs
<setup: lex.end(offset) / lex.end(offset - 1); context = Some(leaf)>
let other = lex.read::<u8>(offset);
if let Some(byte) = other { <fork on byte, ignoring the self edge>  } else { <end-of-input code> }
_take_action!(lex, offset, context, state)
```

Reads go through `Source::read` (src/source.rs): `offset.checked_add(SIZE).is_some_and(|e| e <= len)`.
Every read and every span update is logged exactly as the `verif_trace` hook of the real crate logs it,
so that traces can be compared (tie T-E).  `usize` is 64 bits.
-/
namespace Logos

/-- mirror of `logos::verif_trace::Event` -/
inductive Ev where
  | next (p : Nat)
  | read (off size : Nat) (hit : Bool)
  | trivia (p : Nat)
  | «end» (p : Nat)
  | endToBoundary (arg res : Nat)
deriving Repr, DecidableEq

def usizeMax : Nat := 2^64 - 1

/-- `Source::read::<Chunk>(offset)` for a chunk of `n` bytes. -/
def readChunk (src : List Nat) (off n : Nat) : Option (List Nat) :=
  if off + n ≤ usizeMax ∧ off + n ≤ src.length then some ((src.drop off).take n) else none

def readByte (src : List Nat) (off : Nat) : Option Nat :=
  match readChunk src off 1 with
  | some [b] => some b
  | _ => none

/-- index of the first element of `arr` failing `p`, if any -/
def firstMiss (p : Nat → Bool) : List Nat → Option Nat
  | [] => none
  | b :: t => if p b then (firstMiss p t).map (· + 1) else some 0

/-- second loop of `_fast_loop!`: single-byte reads -/
def fastLoop1 (p : Nat → Bool) (src : List Nat) : Nat → Nat → Nat × List Ev
  | 0, off => (off, [])
  | fuel+1, off =>
    match readByte src off with
    | some b =>
      if p b then
        let r := fastLoop1 p src fuel (off+1)
        (r.1, .read off 1 true :: r.2)
      else (off, [.read off 1 true])
    | none => (off, [.read off 1 false])

/-- `_fast_loop!($lex, $test, $offset)` with unroll factor 8; `p b` = byte stays in the loop. -/
def fastLoop8 (p : Nat → Bool) (src : List Nat) : Nat → Nat → Nat × List Ev
  | 0, off => (off, [])
  | fuel+1, off =>
    match readChunk src off 8 with
    | some arr =>
      match firstMiss p arr with
      | some i => (off + i, [.read off 8 true])            -- `break 'fast_loop`
      | none =>
        let r := fastLoop8 p src fuel (off+8)
        (r.1, .read off 8 true :: r.2)
    | none =>
      let r := fastLoop1 p src (src.length + 1) off
      (r.1, .read off 8 false :: r.2)

def selfEdge (sd : StateData) (st : Nat) : Option Edge := sd.normal.find? (·.target == st)

/-- the if-chain fork (`impl_fork_match`): edges in order, self edge skipped, first hit wins -/
def forkMatch (sd : StateData) (st : Nat) (b : Nat) : Option Nat :=
  ((sd.normal.filter (·.target != st)).find? fun e => inRanges e.ranges b).map (·.target)

/-- the jump-table fork (`impl_fork_table`): later edges overwrite earlier table entries -/
def forkTable (sd : StateData) (st : Nat) (b : Nat) : Option Nat :=
  ((sd.normal.filter (·.target != st)).reverse.find? fun e => inRanges e.ranges b).map (·.target)

def fork (sd : StateData) (st : Nat) (b : Nat) : Option Nat :=
  if sd.normal.length > 2 then forkTable sd st b else forkMatch sd st b

/-- outcome of one visit -/
inductive Visit where
  | goto (st off : Nat) (ctx : Option Nat) (tokEnd : Nat)
  | stop (s : Stop)
deriving Repr, DecidableEq

/-- The `setup` block with its trace. -/
def setupEv (sd : StateData) (off : Nat) (ctx : Option Nat) (tokEnd : Nat) : (Option Nat × Nat) × List Ev :=
  match sd.early, sd.accept with
  | some l, _ => ((some l, off), [.end off])
  | none, some l => ((some l, off - 1), [.end (off - 1)])
  | none, none => ((ctx, tokEnd), [])

def visit (g : Graph) (src : List Nat) (isPrefix : Bool) (start : Nat)
    (st off : Nat) (ctx : Option Nat) (tokEnd : Nat) : Visit × List Ev :=
  let sd := g.get st
  let fl := match selfEdge sd st with
    | some e => fastLoop8 (fun b => inRanges e.ranges b) src (src.length + 1) off
    | none => (off, [])
  let off := fl.1
  let su := setupEv sd off ctx tokEnd
  let ctx := su.1.1
  let tokEnd := su.1.2
  let tr := fl.2 ++ su.2
  match readByte src off with
  | some b =>
    let tr := tr ++ [.read off 1 true]
    match fork sd st b with
    | some t => (.goto t (off+1) ctx tokEnd, tr)
    | none => (.stop (.action off ctx tokEnd), tr)
  | none =>
    let tr := tr ++ [.read off 1 false]
    if (!sd.normal.isEmpty || sd.eoi.isSome) && isPrefix then (.stop .needMore, tr ++ [.end start])
    else if st == g.root && start == off then (.stop .endOfInput, tr)
    else match sd.eoi with
      | some t => (.goto t (off+1) ctx tokEnd, tr)
      | none => (.stop (.action off ctx tokEnd), tr)

/-- iterate visits (this *is* the state-machine code generator's `loop { match state { .. } }`) -/
def attemptI (g : Graph) (src : List Nat) (isPrefix : Bool) (start : Nat) :
    (fuel : Nat) → (st off : Nat) → (ctx : Option Nat) → (tokEnd : Nat) → Stop × List Ev
  | 0, _, _, _, _ => (.diverge, [])
  | fuel+1, st, off, ctx, tokEnd =>
    match visit g src isPrefix start st off ctx tokEnd with
    | (.goto t off' ctx' te', tr) =>
      let r := attemptI g src isPrefix start fuel t off' ctx' te'
      (r.1, tr ++ r.2)
    | (.stop s, tr) => (s, tr)

def attemptFuel (g : Graph) (src : List Nat) : Nat := src.length + g.states.size + 3

/-- `Lexer::next` with the faithful attempt and the full event trace. -/
def nextLoopI (g : Graph) (isPrefix : Bool) (cb : Callbacks) (utf8 : Bool) (src : List Nat) :
    (fuel : Nat) → (start : Nat) → NextRes × List Ev
  | 0, _ => (.diverge, [])
  | fuel+1, start =>
    let a := attemptI g src isPrefix start (attemptFuel g src) g.root start none start
    match attemptOfStop a.1 with
    | .eoi => (.none start start, a.2)
    | .needMore => (.none start start, a.2)
    | .diverge => (.diverge, a.2)
    | .nomatch off =>
      let e0 := max off (start + 1)
      if utf8 then
        match findBoundary src e0 with
        | some e => (.item (.err none start e), a.2 ++ [.endToBoundary e0 e])
        | none => (.diverge, a.2)
      else (.item (.err none start e0), a.2 ++ [.endToBoundary e0 e0])
    | .matched l te =>
      let out := cb l (slice src start te) (src.drop te)
      let te' := te + out.bump
      match out.act with
      | .emit => (.item (.ok l start te'), a.2)
      | .skip =>
        let r := nextLoopI g isPrefix cb utf8 src fuel te'
        (r.1, a.2 ++ [.trivia te'] ++ r.2)
      | .errDefault => (.item (.err none start te'), a.2)
      | .errCustom t => (.item (.err (some t) start te'), a.2)

def lexFromI (g : Graph) (isPrefix : Bool) (cb : Callbacks) (utf8 : Bool) (src : List Nat) :
    (fuel : Nat) → (pos : Nat) → (List Item × Final) × List Ev
  | 0, _ => (([], .diverge), [])
  | fuel+1, pos =>
    match nextLoopI g isPrefix cb utf8 src (src.length + 2) pos with
    | (.item it, tr) =>
      let r := lexFromI g isPrefix cb utf8 src fuel it.stop
      ((it :: r.1.1, r.1.2), .next pos :: tr ++ r.2)
    | (.none s e, tr) => (([], .done s e), .next pos :: tr)
    | (.diverge, tr) => (([], .diverge), .next pos :: tr)

def interpLex (g : Graph) (isPrefix : Bool) (cb : Callbacks) (utf8 : Bool) (src : List Nat) :=
  lexFromI g isPrefix cb utf8 src (src.length + 2) 0

end Logos
