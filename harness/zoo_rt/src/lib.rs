//! Runtime shared by the generated zoo crates: error type, canonical stream printing.
use logos::{Lexer, Logos};
use std::fmt::{Debug, Write};

#[derive(Debug, Clone, PartialEq, Default)]
pub enum ZErr {
    #[default]
    Default,
    Custom(u8),
    Cb(usize),
}

thread_local! {
    static CALLS: std::cell::Cell<usize> = const { std::cell::Cell::new(0) };
    /// lowest / highest address of a local of `called` seen since the last reset (frame model, C06)
    static ADDRS: std::cell::Cell<(usize, usize)> = const { std::cell::Cell::new((usize::MAX, 0)) };
}

/// every zoo callback announces itself: mode "c" prints how often callbacks ran during the lexing
#[inline(never)]
pub fn called() {
    CALLS.with(|c| c.set(c.get() + 1));
    let probe = 0u8;
    let a = std::hint::black_box(&probe) as *const u8 as usize;
    ADDRS.with(|c| {
        let (lo, hi) = c.get();
        c.set((lo.min(a), hi.max(a)));
    });
}

fn calls_reset() {
    CALLS.with(|c| c.set(0));
}

fn calls_suffix(mode: &str) -> String {
    if mode == "c" {
        format!(" #{}", CALLS.with(|c| c.get()))
    } else {
        String::new()
    }
}

pub trait ErrTag {
    fn tag(&self) -> String;
}
impl ErrTag for () {
    fn tag(&self) -> String {
        "d".into()
    }
}
// error types of other shapes (a definition's error callback builds them from the span length; the derived default is all zeros / None)
impl ErrTag for (u8, usize) {
    fn tag(&self) -> String {
        if self.0 == 7 { format!("b{}", self.1) } else { "d".into() }
    }
}
impl ErrTag for [usize; 2] {
    fn tag(&self) -> String {
        if self[0] == 7 { format!("b{}", self[1]) } else { "d".into() }
    }
}
impl ErrTag for Option<usize> {
    fn tag(&self) -> String {
        match self {
            Some(n) => format!("b{n}"),
            None => "d".into(),
        }
    }
}
impl ErrTag for (usize,) {
    fn tag(&self) -> String {
        if self.0 >= 100 { format!("b{}", self.0 - 100) } else { "d".into() }
    }
}
/// an error type with an inherent `default()` next to its `Default` impl (such a function is kept for const tables):
/// the lexer's default error is the value of the trait
#[derive(Debug, Clone, PartialEq)]
pub enum ZErr2 {
    Unrecognised,
    Placeholder,
}
impl Default for ZErr2 {
    fn default() -> Self {
        ZErr2::Unrecognised
    }
}
impl ZErr2 {
    #[allow(clippy::should_implement_trait)]
    pub const fn default() -> Self {
        ZErr2::Placeholder
    }
}
impl ErrTag for ZErr2 {
    fn tag(&self) -> String {
        match self {
            ZErr2::Unrecognised => "d".into(),
            ZErr2::Placeholder => "X".into(),
        }
    }
}
impl ErrTag for ZErr {
    fn tag(&self) -> String {
        match self {
            ZErr::Default => "d".into(),
            ZErr::Custom(n) => format!("c{n}"),
            ZErr::Cb(n) => format!("b{n}"),
        }
    }
}

pub fn unhex(s: &str) -> Vec<u8> {
    if s == "-" {
        return vec![];
    }
    (0..s.len() / 2)
        .map(|i| u8::from_str_radix(&s[2 * i..2 * i + 2], 16).unwrap())
        .collect()
}

fn vname<T: Debug>(t: &T) -> String {
    let s = format!("{:?}", t);
    match s.find('(') {
        Some(i) => s[..i].to_string(),
        None => s,
    }
}

#[cfg(feature = "trace")]
fn trace_str() -> String {
    use logos::verif_trace::Event::*;
    let mut o = String::new();
    for e in logos::verif_trace::take() {
        match e {
            Next(p) => write!(o, " N{p}").unwrap(),
            Read(off, sz, hit) => write!(o, " R{off}/{sz}{}", if hit { "+" } else { "-" }).unwrap(),
            Trivia(p) => write!(o, " T{p}").unwrap(),
            End(p) => write!(o, " E{p}").unwrap(),
            EndToBoundary(a, r) => write!(o, " B{a}>{r}").unwrap(),
        }
    }
    o
}
#[cfg(not(feature = "trace"))]
fn trace_str() -> String {
    String::new()
}

/// modes: "n" ordinary lexer, "p" partial lexer, "t" ordinary + trace
pub fn lex_str<'s, T>(src: &'s str, mode: &str) -> String
where
    T: Logos<'s, Source = str, Extras = ()> + Debug,
    T::Error: ErrTag,
{
    if let Some((reslice, cuts)) = mode.strip_prefix('f').map(|c| (false, c)).or(mode.strip_prefix('r').map(|c| (true, c))) {
        // chunked feeding (C07): partial lexers over growing prefixes, each resumed where the one before said `None`,
        // then an ordinary lexer over everything; printed like mode "n".  Mode "f": a lexer over `src[..k]` is moved to the
        // position with `bump` (Chunked.feed); mode "r": a lexer over the remaining slice `src[q..k]`, spans moved by `q`
        // (Reslice.feedR, what examples/json_reader.rs does)
        let mut out = String::new();
        let mut q = 0usize;
        let ks: Vec<usize> = cuts.split(',').filter_map(|k| k.parse().ok()).collect();
        for (j, k) in ks.iter().map(|&k| Some(k)).chain([None]).enumerate() {
            let _ = j;
            let base = if reslice { q } else { 0 };
            let buf = match k {
                Some(k) if k <= src.len() && k >= q && src.is_char_boundary(k) => &src[base..k],
                Some(_) => continue,
                None => &src[base..],
            };
            let mut lex: Lexer<'s, T> = if k.is_some() { Lexer::new_partial(buf) } else { Lexer::new(buf) };
            lex.bump(q - base);
            let mut n = 0usize;
            loop {
                n += 1;
                if n > 4 * src.len() + 16 {
                    out.push_str("LOOP");
                    return out;
                }
                let item = lex.next();
                let sp = lex.span();
                let sp = (sp.start + base)..(sp.end + base);
                match item {
                    Some(Ok(t)) => write!(out, "{}:{}-{} ", vname(&t), sp.start, sp.end).unwrap(),
                    Some(Err(e)) => write!(out, "!{}:{}-{} ", e.tag(), sp.start, sp.end).unwrap(),
                    None => {
                        q = sp.start;
                        if k.is_none() {
                            write!(out, ".{}-{}", sp.start, sp.end).unwrap();
                        }
                        break;
                    }
                }
            }
        }
        return out;
    }
    let mut lex: Lexer<'s, T> = if mode == "p" { Lexer::new_partial(src) } else { Lexer::new(src) };
    let _ = trace_str();
    calls_reset();
    let mut out = String::new();
    let mut n = 0usize;
    loop {
        n += 1;
        if n > 4 * src.len() + 16 {
            out.push_str("LOOP");
            break;
        }
        let item = lex.next();
        let sp = lex.span();
        let ok_span = sp.start <= sp.end && sp.end <= src.len() && src.is_char_boundary(sp.start) && src.is_char_boundary(sp.end);
        if !ok_span {
            write!(out, "BADSPAN:{}-{}", sp.start, sp.end).unwrap();
            break;
        }
        if lex.slice() != &src[sp.clone()] || lex.remainder() != &src[sp.end..] {
            write!(out, "BADSLICE:{}-{}", sp.start, sp.end).unwrap();
            break;
        }
        match item {
            Some(Ok(t)) => write!(out, "{}:{}-{} ", vname(&t), sp.start, sp.end).unwrap(),
            Some(Err(e)) => write!(out, "!{}:{}-{} ", e.tag(), sp.start, sp.end).unwrap(),
            None => {
                write!(out, ".{}-{}", sp.start, sp.end).unwrap();
                // None must be sticky for an ordinary lexer
                if mode == "n" {
                    let again = lex.next();
                    if again.is_some() || lex.span() != (sp.end..sp.end) {
                        out.push_str(" NOTSTICKY");
                    }
                }
                break;
            }
        }
    }
    out.push_str(&calls_suffix(mode));
    if mode == "t" {
        out.push_str(" |");
        out.push_str(&trace_str());
    }
    out
}

pub fn lex_bytes<'s, T>(src: &'s [u8], mode: &str) -> String
where
    T: Logos<'s, Source = [u8], Extras = ()> + Debug,
    T::Error: ErrTag,
{
    if let Some((reslice, cuts)) = mode.strip_prefix('f').map(|c| (false, c)).or(mode.strip_prefix('r').map(|c| (true, c))) {
        // chunked feeding (C07): partial lexers over growing prefixes, each resumed where the one before said `None`,
        // then an ordinary lexer over everything; printed like mode "n".  Mode "f": a lexer over `src[..k]` is moved to the
        // position with `bump` (Chunked.feed); mode "r": a lexer over the remaining slice `src[q..k]`, spans moved by `q`
        // (Reslice.feedR, what examples/json_reader.rs does)
        let mut out = String::new();
        let mut q = 0usize;
        let ks: Vec<usize> = cuts.split(',').filter_map(|k| k.parse().ok()).collect();
        for (j, k) in ks.iter().map(|&k| Some(k)).chain([None]).enumerate() {
            let _ = j;
            let base = if reslice { q } else { 0 };
            let buf = match k {
                Some(k) if k <= src.len() && k >= q => &src[base..k],
                Some(_) => continue,
                None => &src[base..],
            };
            let mut lex: Lexer<'s, T> = if k.is_some() { Lexer::new_partial(buf) } else { Lexer::new(buf) };
            lex.bump(q - base);
            let mut n = 0usize;
            loop {
                n += 1;
                if n > 4 * src.len() + 16 {
                    out.push_str("LOOP");
                    return out;
                }
                let item = lex.next();
                let sp = lex.span();
                let sp = (sp.start + base)..(sp.end + base);
                match item {
                    Some(Ok(t)) => write!(out, "{}:{}-{} ", vname(&t), sp.start, sp.end).unwrap(),
                    Some(Err(e)) => write!(out, "!{}:{}-{} ", e.tag(), sp.start, sp.end).unwrap(),
                    None => {
                        q = sp.start;
                        if k.is_none() {
                            write!(out, ".{}-{}", sp.start, sp.end).unwrap();
                        }
                        break;
                    }
                }
            }
        }
        return out;
    }
    let mut lex: Lexer<'s, T> = if mode == "p" { Lexer::new_partial(src) } else { Lexer::new(src) };
    let _ = trace_str();
    calls_reset();
    let mut out = String::new();
    let mut n = 0usize;
    loop {
        n += 1;
        if n > 4 * src.len() + 16 {
            out.push_str("LOOP");
            break;
        }
        let item = lex.next();
        let sp = lex.span();
        if !(sp.start <= sp.end && sp.end <= src.len()) {
            write!(out, "BADSPAN:{}-{}", sp.start, sp.end).unwrap();
            break;
        }
        if lex.slice() != &src[sp.clone()] || lex.remainder() != &src[sp.end..] {
            write!(out, "BADSLICE:{}-{}", sp.start, sp.end).unwrap();
            break;
        }
        match item {
            Some(Ok(t)) => write!(out, "{}:{}-{} ", vname(&t), sp.start, sp.end).unwrap(),
            Some(Err(e)) => write!(out, "!{}:{}-{} ", e.tag(), sp.start, sp.end).unwrap(),
            None => {
                write!(out, ".{}-{}", sp.start, sp.end).unwrap();
                if mode == "n" {
                    let again = lex.next();
                    if again.is_some() || lex.span() != (sp.end..sp.end) {
                        out.push_str(" NOTSTICKY");
                    }
                }
                break;
            }
        }
    }
    out.push_str(&calls_suffix(mode));
    if mode == "t" {
        out.push_str(" |");
        out.push_str(&trace_str());
    }
    out
}

/// Stack-depth probe: lex `unit` repeated up to ~`total` bytes on a thread with a 64 KiB stack,
/// counting items. A lexer whose stack use grows with the input overflows this stack (the process
/// dies); a constant-stack lexer prints the count.
pub fn stack_probe_str<T>(unit: &str, total: usize) -> String
where
    T: for<'s> Logos<'s, Source = str, Extras = ()> + Debug,
{
    let n = (total / unit.len().max(1)).max(1);
    let big: String = unit.repeat(n);
    let h = std::thread::Builder::new()
        .stack_size(if total > (1 << 16) { 64 * 1024 } else { 8 << 20 })
        .spawn(move || {
            calls_reset();
            let mut lex = Lexer::<T>::new(&big);
            let mut count = 0usize;
            ADDRS.with(|c| c.set((usize::MAX, 0)));
            while let Some(_) = lex.next() {
                count += 1;
            }
            // distance between the deepest and the shallowest callback invocation: with a constant number of
            // frames between the loop above and a callback it is 0 for a definition with one kind of callback
            let (lo, hi) = ADDRS.with(|c| c.get());
            let spread = if hi >= lo { hi - lo } else { 0 };
            format!("count={} end={} len={} spread={} calls={}", count, lex.span().end, big.len(), spread, CALLS.with(|c| c.get()))
        })
        .unwrap();
    h.join().unwrap_or_else(|_| "THREADPANIC".into())
}

/// Lex `input` presented as a prefix of a longer allocation whose tail repeats the input, so that
/// a read past the end of the slice changes the result instead of going unnoticed.
/// The same with two different tails: the input repeated (a read past the end continues the last token) and UTF-8
/// continuation bytes (a scan for the next char boundary that runs past the end keeps going).  The answers have to agree.
pub fn with_tails(input: &[u8], f: impl Fn(&[u8]) -> Option<String>) -> Option<String> {
    let a = with_tail(input, &f)?;
    let mut buf = Vec::with_capacity(input.len() + 48);
    buf.extend_from_slice(input);
    for i in 0..48 {
        buf.push(if i % 3 == 2 { 0x80 } else { 0xBF });
    }
    let b = f(&buf[..input.len()]).unwrap_or_default();
    if a == b {
        Some(a)
    } else {
        Some(format!("{a} TAILDEPENDENT {b}"))
    }
}

pub fn with_tail<R>(input: &[u8], f: impl FnOnce(&[u8]) -> R) -> R {
    let mut buf = Vec::with_capacity(input.len() * 2 + 40);
    buf.extend_from_slice(input);
    buf.extend_from_slice(input);
    buf.extend_from_slice(&[b'a'; 40]);
    f(&buf[..input.len()])
}
