//! Calls the real `logos_codegen::generate` (and `strip_attributes`) on enum sources read from
//! stdin (separated by lines `----`) and prints, per case: verdict, diagnostics, the hook's dump.
use proc_macro2::{TokenStream, TokenTree};
use std::io::Read;

fn hex(s: &str) -> String {
    s.bytes().map(|b| format!("{:02x}", b)).collect()
}

/// collect the string arguments of every `compile_error!(..)` in the output
fn errors(ts: TokenStream, out: &mut Vec<String>) {
    let toks: Vec<TokenTree> = ts.into_iter().collect();
    let mut i = 0;
    while i < toks.len() {
        match &toks[i] {
            TokenTree::Ident(id) if id == "compile_error" => {
                if let (Some(TokenTree::Punct(p)), Some(TokenTree::Group(g))) =
                    (toks.get(i + 1), toks.get(i + 2))
                {
                    if p.as_char() == '!' {
                        let msg = match syn::parse2::<syn::LitStr>(g.stream()) {
                            Ok(l) => l.value(),
                            Err(_) => g.stream().to_string(),
                        };
                        out.push(msg);
                        i += 3;
                        continue;
                    }
                }
            }
            TokenTree::Group(g) => errors(g.stream(), out),
            _ => {}
        }
        i += 1;
    }
}

fn is_logos_attr(a: &syn::Attribute) -> bool {
    let p = a.path();
    p.is_ident("logos") || p.is_ident("token") || p.is_ident("regex")
}

/// attributes as comparable strings; derive lists become the list of their paths minus `Logos`
fn attr_sig(attrs: &[syn::Attribute], drop_logos: bool) -> Vec<String> {
    use quote::ToTokens;
    let mut out = Vec::new();
    for a in attrs {
        if drop_logos && is_logos_attr(a) {
            continue;
        }
        if a.path().is_ident("derive") {
            let paths = a.parse_args_with(syn::punctuated::Punctuated::<syn::Path, syn::Token![,]>::parse_terminated);
            match paths {
                Ok(ps) => {
                    let mut l = Vec::new();
                    for p in ps {
                        let last = p.segments.last().map(|s| s.ident.to_string()).unwrap_or_default();
                        if drop_logos && last == "Logos" {
                            continue;
                        }
                        l.push(p.to_token_stream().to_string().replace(' ', ""));
                    }
                    out.push(format!("derive[{}]", l.join(",")));
                }
                Err(_) => out.push(format!("derive-unparsable[{}]", a.to_token_stream())),
            }
        } else {
            out.push(a.to_token_stream().to_string());
        }
    }
    out
}

/// structural comparison of the stripped enum with the input enum (independent of how stripping is done)
fn strip_check(input: &TokenStream, stripped: &str) -> Result<(), String> {
    use quote::ToTokens;
    let inp: syn::ItemEnum = syn::parse2(input.clone()).map_err(|e| format!("input not an enum: {e}"))?;
    let out: syn::ItemEnum = syn::parse_str(stripped).map_err(|e| format!("output is not a valid enum: {e}"))?;
    if inp.ident != out.ident || inp.generics.to_token_stream().to_string() != out.generics.to_token_stream().to_string()
        || inp.vis.to_token_stream().to_string() != out.vis.to_token_stream().to_string() {
        return Err("enum header changed".into());
    }
    // (`Generics::to_tokens` prints the parameter list only)
    if inp.generics.where_clause.to_token_stream().to_string() != out.generics.where_clause.to_token_stream().to_string() {
        return Err("where clause changed".into());
    }
    let (a, b) = (attr_sig(&inp.attrs, true), attr_sig(&out.attrs, false));
    if a != b {
        return Err(format!("enum attributes: expected {:?} got {:?}", a, b));
    }
    if out.attrs.iter().any(is_logos_attr) {
        return Err("a logos attribute survived".into());
    }
    if inp.variants.len() != out.variants.len() {
        return Err("variant count changed".into());
    }
    for (vi, vo) in inp.variants.iter().zip(out.variants.iter()) {
        if vi.ident != vo.ident {
            return Err("variant renamed".into());
        }
        let (a, b) = (attr_sig(&vi.attrs, true), attr_sig(&vo.attrs, false));
        if a != b {
            return Err(format!("attributes of variant {}: expected {:?} got {:?}", vi.ident, a, b));
        }
        if vi.discriminant.as_ref().map(|d| d.1.to_token_stream().to_string()) != vo.discriminant.as_ref().map(|d| d.1.to_token_stream().to_string()) {
            return Err("discriminant changed".into());
        }
        let fi: Vec<_> = vi.fields.iter().collect();
        let fo: Vec<_> = vo.fields.iter().collect();
        if fi.len() != fo.len() {
            return Err("field count changed".into());
        }
        for (a, b) in fi.iter().zip(fo.iter()) {
            if a.ty.to_token_stream().to_string() != b.ty.to_token_stream().to_string() || a.ident != b.ident {
                return Err("field changed".into());
            }
            let (x, y) = (attr_sig(&a.attrs, true), attr_sig(&b.attrs, false));
            if x != y {
                return Err(format!("field attributes: expected {:?} got {:?}", x, y));
            }
        }
    }
    Ok(())
}

fn fnv(s: &str) -> u64 {
    let mut h: u64 = 0xcbf29ce484222325;
    for b in s.bytes() {
        h ^= b as u64;
        h = h.wrapping_mul(0x100000001b3);
    }
    h
}

fn threaded(src: &str, n: usize, reverse: bool) {
    let chunks: Vec<String> = src.split("\n----\n").map(|s| s.to_string()).collect();
    let mut handles = Vec::new();
    for t in 0..n {
        let chunks = chunks.clone();
        handles.push(std::thread::spawn(move || {
            let mut out = Vec::new();
            // every thread walks the definitions in its own order (rotated, odd threads backwards): output that depends on
            // what the process generated before shows up as a difference between threads
            let len = chunks.len();
            let order: Vec<usize> = (0..len)
                .map(|k| {
                    let k = if (t % 2 == 1) != reverse { len - 1 - k } else { k };
                    (k + t * len / n.max(1)) % len
                })
                .collect();
            for i in order {
                let chunk = &chunks[i];
                if chunk.trim().is_empty() {
                    continue;
                }
                let Ok(ts) = chunk.parse::<TokenStream>() else { continue };
                if syn::parse2::<syn::ItemEnum>(ts.clone()).is_err() {
                    continue;
                }
                let _ = logos_codegen::verif::take();
                let r = std::panic::catch_unwind(move || logos_codegen::generate(ts).to_string());
                let dump = logos_codegen::verif::take().unwrap_or_default();
                match r {
                    Ok(o) => out.push(format!("T {} {} {:016x} {:016x}", t, i, fnv(&o), fnv(&dump))),
                    Err(_) => out.push(format!("T {} {} PANIC", t, i)),
                }
            }
            out
        }));
    }
    for h in handles {
        for l in h.join().unwrap() {
            println!("{}", l);
        }
    }
}

fn norm_spacing(s: &str) -> String {
    let cs: Vec<char> = s.chars().collect();
    let mut out = String::with_capacity(cs.len());
    let is_w = |c: char| c.is_alphanumeric() || c == '_' || c == '\'' || c == '"';
    let mut i = 0;
    while i < cs.len() {
        if cs[i].is_whitespace() {
            let mut j = i;
            while j < cs.len() && cs[j].is_whitespace() {
                j += 1;
            }
            let prev = out.chars().last();
            let next = cs.get(j).copied();
            if let (Some(p), Some(n)) = (prev, next) {
                if is_w(p) && is_w(n) {
                    out.push(' ');
                }
            }
            i = j;
        } else {
            out.push(cs[i]);
            i += 1;
        }
    }
    out
}

fn main() {
    let args: Vec<String> = std::env::args().collect();
    let want_code = args.iter().any(|a| a == "--code");
    let want_strip = args.iter().any(|a| a == "--strip");
    let mut s = String::new();
    std::io::stdin().read_to_string(&mut s).unwrap();
    std::panic::set_hook(Box::new(|_| {}));
    if let Some(p) = args.iter().position(|a| a == "--threads") {
        threaded(&s, args[p + 1].parse().unwrap(), args.iter().any(|a| a == "--reverse"));
        return;
    }
    for (i, chunk) in s.split("\n----\n").enumerate() {
        if chunk.trim().is_empty() {
            continue;
        }
        let ts: TokenStream = match chunk.parse() {
            Ok(t) => t,
            Err(e) => {
                println!("CASE {} LEXERR {}", i, hex(&e.to_string()));
                println!("END");
                continue;
            }
        };
        if syn::parse2::<syn::ItemEnum>(ts.clone()).is_err() {
            // not an enum item: rustc would never hand this to the derive
            println!("CASE {} NOTENUM", i);
            println!("END");
            continue;
        }
        if want_strip {
            let ts2 = ts.clone();
            match std::panic::catch_unwind(move || logos_codegen::strip_attributes(ts2).to_string()) {
                Ok(o) => {
                    println!("STRIP {} {}", i, hex(&o));
                    match strip_check(&ts, &o) {
                        Ok(()) => println!("STRIPCHK {} OK", i),
                        Err(e) => println!("STRIPCHK {} BAD {}", i, hex(&e)),
                    }
                }
                Err(_) => println!("STRIP {} PANIC", i),
            }
        }
        let _ = logos_codegen::verif::take();
        let r = std::panic::catch_unwind(move || {
            let out = logos_codegen::generate(ts);
            let mut errs = Vec::new();
            errors(out.clone(), &mut errs);
            (out.to_string(), errs)
        });
        match r {
            Err(p) => {
                let msg = p
                    .downcast_ref::<String>()
                    .cloned()
                    .or_else(|| p.downcast_ref::<&str>().map(|s| s.to_string()))
                    .unwrap_or_default();
                println!("CASE {} PANIC {}", i, hex(&msg));
                let _ = logos_codegen::verif::take();
                println!("END");
            }
            Ok((o, errs)) => {
                println!("CASE {} {}", i, if errs.is_empty() { "ACCEPT" } else { "REJECT" });
                for e in &errs {
                    println!("ERR {}", hex(e));
                }
                // the hash ignores token spacing (`> (` vs `>(`: proc_macro2 renders Joint/Alone punctuation differently
                // although the token sequences are the same): a space is dropped unless it separates two word characters
                let on = norm_spacing(&o);
                println!("CODE {} {:016x}", on.len(), fnv(&on));
                if want_code {
                    println!("CODETEXT {}", hex(&o));
                }
                if want_strip || want_code {
                    println!("CODEVALID {}", if syn::parse_str::<syn::File>(&o).is_ok() { 1 } else { 0 });
                }
                match logos_codegen::verif::take() {
                    Some(d) => print!("{}", d),
                    None => println!("NODUMP\nEND"),
                }
            }
        }
    }
}
