//! Calls the real `logos_codegen::generate` (and `strip_attributes`) on enum sources read from
//! stdin (separated by lines `----`) and prints, per case: verdict, diagnostics, the hook's dump.
use proc_macro2::{TokenStream, TokenTree};
use std::io::Read;

fn hex(s: &str) -> String {
    s.bytes().map(|b| format!("{:02x}", b)).collect()
}

/// collect the string arguments of every `compile_error!(..)` in the output
fn errors(ts: TokenStream, out: &mut Vec<String>) {
    let toks: Vec<TokenTree> = ts.into_iter().collect();
    let mut i = 0;
    while i < toks.len() {
        match &toks[i] {
            TokenTree::Ident(id) if id == "compile_error" => {
                if let (Some(TokenTree::Punct(p)), Some(TokenTree::Group(g))) =
                    (toks.get(i + 1), toks.get(i + 2))
                {
                    if p.as_char() == '!' {
                        let msg = match syn::parse2::<syn::LitStr>(g.stream()) {
                            Ok(l) => l.value(),
                            Err(_) => g.stream().to_string(),
                        };
                        out.push(msg);
                        i += 3;
                        continue;
                    }
                }
            }
            TokenTree::Group(g) => errors(g.stream(), out),
            _ => {}
        }
        i += 1;
    }
}

fn fnv(s: &str) -> u64 {
    let mut h: u64 = 0xcbf29ce484222325;
    for b in s.bytes() {
        h ^= b as u64;
        h = h.wrapping_mul(0x100000001b3);
    }
    h
}

fn main() {
    let args: Vec<String> = std::env::args().collect();
    let want_code = args.iter().any(|a| a == "--code");
    let want_strip = args.iter().any(|a| a == "--strip");
    let mut s = String::new();
    std::io::stdin().read_to_string(&mut s).unwrap();
    std::panic::set_hook(Box::new(|_| {}));
    for (i, chunk) in s.split("\n----\n").enumerate() {
        if chunk.trim().is_empty() {
            continue;
        }
        let ts: TokenStream = match chunk.parse() {
            Ok(t) => t,
            Err(e) => {
                println!("CASE {} LEXERR {}", i, hex(&e.to_string()));
                println!("END");
                continue;
            }
        };
        if want_strip {
            let ts2 = ts.clone();
            match std::panic::catch_unwind(move || logos_codegen::strip_attributes(ts2).to_string()) {
                Ok(o) => println!("STRIP {} {}", i, hex(&o)),
                Err(_) => println!("STRIP {} PANIC", i),
            }
        }
        let _ = logos_codegen::verif::take();
        let r = std::panic::catch_unwind(move || {
            let out = logos_codegen::generate(ts);
            let mut errs = Vec::new();
            errors(out.clone(), &mut errs);
            (out.to_string(), errs)
        });
        match r {
            Err(p) => {
                let msg = p
                    .downcast_ref::<String>()
                    .cloned()
                    .or_else(|| p.downcast_ref::<&str>().map(|s| s.to_string()))
                    .unwrap_or_default();
                println!("CASE {} PANIC {}", i, hex(&msg));
                let _ = logos_codegen::verif::take();
                println!("END");
            }
            Ok((o, errs)) => {
                println!("CASE {} {}", i, if errs.is_empty() { "ACCEPT" } else { "REJECT" });
                for e in &errs {
                    println!("ERR {}", hex(e));
                }
                println!("CODE {} {:016x}", o.len(), fnv(&o));
                if want_code {
                    println!("CODETEXT {}", hex(&o));
                }
                match logos_codegen::verif::take() {
                    Some(d) => print!("{}", d),
                    None => println!("NODUMP\nEND"),
                }
            }
        }
    }
}
