//! Reference lexer for definitions with look-around assertions, built on regex-automata's PikeVM
//! (NFA simulation; an engine of the regex crate family that shares nothing with logos's DFA/graph
//! pipeline).  The HIR of every leaf is rebuilt from the capture dump, so the oracle sees exactly the
//! patterns logos compiled.
//!
//! stdin: case blocks as for the Lean driver (CASE / DEF / LEAF / HIR / CB / ERRCB lines) followed by
//! `Q REF <hex>` lines; stdout: `<case> REF <hex> : <stream>` where an error item is printed as
//! `!?:s-` (the reference does not decide where an error ends: see `check_stream` in the harness).
use regex_automata::{
    nfa::thompson::{pikevm::PikeVM, NFA},
    Anchored, Input, MatchKind,
};
use regex_syntax::hir::{self, Hir, Look};
use std::io::{BufRead, Write};

fn unhex(s: &str) -> Vec<u8> {
    if s == "-" {
        return vec![];
    }
    (0..s.len() / 2).map(|i| u8::from_str_radix(&s[2 * i..2 * i + 2], 16).unwrap()).collect()
}

fn parse_hir(t: &mut std::slice::Iter<u64>) -> Option<Hir> {
    let tag = *t.next()?;
    Some(match tag {
        0 => Hir::empty(),
        1 => {
            let n = *t.next()? as usize;
            let bytes: Vec<u8> = (0..n).map(|_| *t.next().unwrap() as u8).collect();
            Hir::literal(bytes)
        }
        2 => {
            let kind = *t.next()?;
            let nr = *t.next()? as usize;
            let mut rs = Vec::new();
            for _ in 0..nr {
                rs.push((*t.next()?, *t.next()?));
            }
            let ns = *t.next()? as usize;
            for _ in 0..ns {
                let l = *t.next()? as usize;
                for _ in 0..2 * l {
                    t.next()?;
                }
            }
            if kind == 0 {
                let ranges = rs.iter().map(|&(a, b)| hir::ClassUnicodeRange::new(char::from_u32(a as u32).unwrap(), char::from_u32(b as u32).unwrap()));
                Hir::class(hir::Class::Unicode(hir::ClassUnicode::new(ranges)))
            } else {
                let ranges = rs.iter().map(|&(a, b)| hir::ClassBytesRange::new(a as u8, b as u8));
                Hir::class(hir::Class::Bytes(hir::ClassBytes::new(ranges)))
            }
        }
        3 => Hir::look(Look::from_repr(*t.next()? as u32)?),
        4 => {
            let min = *t.next()? as u32;
            let hasmax = *t.next()?;
            let max = *t.next()? as u32;
            let greedy = *t.next()? == 1;
            let sub = parse_hir(t)?;
            Hir::repetition(hir::Repetition { min, max: if hasmax == 1 { Some(max) } else { None }, greedy, sub: Box::new(sub) })
        }
        5 => parse_hir(t)?, // captures are irrelevant for matching
        6 => {
            let n = *t.next()? as usize;
            let mut v = Vec::new();
            for _ in 0..n {
                v.push(parse_hir(t)?);
            }
            Hir::concat(v)
        }
        7 => {
            let n = *t.next()? as usize;
            let mut v = Vec::new();
            for _ in 0..n {
                v.push(parse_hir(t)?);
            }
            Hir::alternation(v)
        }
        _ => return None,
    })
}

struct Leaf {
    prio: usize,
    kind: u32, // 0 skip, 1 unit, 2 value
    name: String,
    cb: u32,
    vm: Option<PikeVM>,
}

#[derive(Default)]
struct Case {
    name: String,
    utf8: bool,
    leaves: Vec<Leaf>,
    errcb: bool,
    broken: bool,
}

enum Act {
    Emit,
    Skip,
    ErrDefault,
    ErrCustom(u32),
}

/// the zoo's callback menu (mirror of lean/LogosModel/Callback.lean `zooCallback`)
fn callback(leaf_kind: u32, cb: u32, s: &[u8], rem: &[u8]) -> (Act, usize) {
    if cb == 0 {
        return (if leaf_kind == 0 { Act::Skip } else { Act::Emit }, 0);
    }
    let z = (s.len() + s.first().copied().unwrap_or(0) as usize) % 3;
    let bump = if matches!(cb, 20 | 21 | 22) && !rem.is_empty() && rem[0] < 128 { 1 } else { 0 };
    // (emit, skip, errdefault, errcustom tag) by return-value kind
    enum R { Plain, ResOk, ResErr(u32), OptSome, OptNone, FEmit, FSkip, FrEmit, FrSkip, FrErr(u32), BT, BF, Skip, RsOk, RsErr(u32) }
    let r = match cb {
        1 => if z != 0 { R::BT } else { R::BF },
        2 | 5 | 11 | 16 | 20 | 21 | 22 => R::Plain,
        3 | 17 => R::Skip,
        4 => if z == 0 { R::RsErr(1) } else { R::RsOk },
        6 => if z == 0 { R::ResErr(2) } else { R::ResOk },
        7 | 14 => if z == 0 { R::FSkip } else { R::FEmit },
        8 => if z == 0 { R::FrSkip } else if z == 1 { R::FrErr(3) } else { R::FrEmit },
        9 | 12 => if z == 0 { R::OptNone } else { R::OptSome },
        10 => if z == 0 { R::ResErr(4) } else { R::ResOk },
        13 => if z == 0 { R::ResErr(5) } else { R::ResOk },
        15 => if z == 0 { R::FrSkip } else if z == 1 { R::FrErr(6) } else { R::FrEmit },
        18 => if z == 0 { R::ResErr(7) } else { R::ResOk },
        19 => if z == 0 { R::RsErr(8) } else { R::RsOk },
        _ => R::Plain,
    };
    let act = if leaf_kind == 0 {
        match r {
            R::ResErr(t) | R::RsErr(t) => Act::ErrCustom(t),
            _ => Act::Skip,
        }
    } else {
        match r {
            R::Plain | R::ResOk | R::OptSome | R::FEmit | R::FrEmit | R::BT => Act::Emit,
            R::ResErr(t) | R::FrErr(t) | R::RsErr(t) => Act::ErrCustom(t),
            R::OptNone | R::BF => Act::ErrDefault,
            R::FSkip | R::FrSkip | R::Skip | R::RsOk => Act::Skip,
        }
    };
    (act, bump)
}

impl Case {
    fn exact(&self, i: usize, hay: &[u8], p: usize, k: usize) -> bool {
        let Some(vm) = &self.leaves[i].vm else { return false };
        let mut cache = vm.create_cache();
        let input = Input::new(hay).span(p..k).anchored(Anchored::Yes);
        let mut caps = vm.create_captures();
        vm.search(&mut cache, &input, &mut caps);
        matches!(caps.get_match(), Some(m) if m.end() == k)
    }

    /// reference stream; an error is printed as `!?:p-` and lexing resumes where `resume(p)` says
    fn lex(&self, hay: &[u8], resume: &dyn Fn(usize) -> Option<usize>) -> String {
        let mut out = String::new();
        let mut p = 0usize;
        let mut start = 0usize;
        let mut steps = 0;
        while p < hay.len() {
            steps += 1;
            if steps > 4 * hay.len() + 16 {
                out.push_str("REFLOOP");
                return out;
            }
            let mut best: Option<(usize, usize)> = None;
            for k in p + 1..=hay.len() {
                let mut w: Option<usize> = None;
                for i in 0..self.leaves.len() {
                    if self.exact(i, hay, p, k) && w.map_or(true, |j| self.leaves[i].prio > self.leaves[j].prio) {
                        w = Some(i);
                    }
                }
                if let Some(i) = w {
                    best = Some((k, i));
                }
            }
            match best {
                Some((k, i)) => {
                    let lf = &self.leaves[i];
                    let (act, bump) = callback(lf.kind, lf.cb, &hay[start.max(p).min(p)..k], &hay[k..]);
                    let e = k + bump;
                    let nm = if (5..=8).contains(&lf.cb) { "Alt" } else { &lf.name };
                    match act {
                        Act::Emit => out.push_str(&format!("{}:{}-{} ", nm, p, e)),
                        Act::Skip => {}
                        Act::ErrDefault => out.push_str(&format!("!{}:{}-{} ", if self.errcb { format!("b{}", e - p) } else { "d".into() }, p, e)),
                        Act::ErrCustom(t) => out.push_str(&format!("!c{}:{}-{} ", t, p, e)),
                    }
                    p = e;
                    start = p;
                }
                None => {
                    out.push_str(&format!("!?:{}- ", p));
                    match resume(p) {
                        Some(q) if q > p => {
                            p = q;
                            start = p;
                        }
                        _ => {
                            out.push_str("NORESUME");
                            return out;
                        }
                    }
                }
            }
        }
        out.push_str(&format!(".{}-{}", p, p));
        out
    }
}

fn main() {
    let stdin = std::io::stdin();
    let stdout = std::io::stdout();
    let mut out = std::io::BufWriter::new(stdout.lock());
    let mut cur = Case::default();
    for line in stdin.lock().lines() {
        let line = line.unwrap();
        let t: Vec<&str> = line.split(' ').filter(|s| !s.is_empty()).collect();
        if t.is_empty() {
            continue;
        }
        match t[0] {
            "CASE" => {
                cur = Case { name: t[1].to_string(), utf8: true, ..Default::default() };
            }
            "DEF" => cur.utf8 = t[1] == "1",
            "LEAF" => cur.leaves.push(Leaf { prio: t[2].parse().unwrap(), kind: t[3].parse().unwrap(), name: t[5].to_string(), cb: 0, vm: None }),
            "HIR" => {
                let i: usize = t[1].parse().unwrap();
                let nums: Vec<u64> = t[2..].iter().map(|x| x.parse().unwrap()).collect();
                let h = parse_hir(&mut nums.iter());
                if let (Some(h), Some(lf)) = (h, cur.leaves.get_mut(i)) {
                    let nfa = NFA::compiler().configure(NFA::config().utf8(cur.utf8)).build_from_hir(&h);
                    if let Ok(nfa) = nfa {
                        lf.vm = PikeVM::builder().configure(PikeVM::config().match_kind(MatchKind::All)).build_from_nfa(nfa).ok();
                    }
                }
            }
            "WSRC" => {
                // `WSRC <leaf> <unicode> <icase> <literal 0/1> <hex>`: replace the leaf's matcher by one built from the
                // pattern *as written* (regex-syntax parser in the mode the literal kind asks for), so that the reference
                // no longer depends on what the derive captured for this leaf
                let i: usize = t[1].parse().unwrap();
                let (unicode, icase, lit) = (t[2] == "1", t[3] == "1", t[4] == "1");
                let bytes = unhex(t[5]);
                let pat = if !lit {
                    String::from_utf8(bytes).unwrap_or_default()
                } else if unicode {
                    regex_syntax::escape(&String::from_utf8(bytes).unwrap_or_default())
                } else {
                    bytes.iter().map(|b| format!("\\x{:02X}", b)).collect::<String>()
                };
                let h = regex_syntax::ParserBuilder::new().utf8(false).unicode(unicode).case_insensitive(icase).build().parse(&pat);
                if let Some(lf) = cur.leaves.get_mut(i) {
                    lf.vm = None;
                    if let Ok(h) = h {
                        if let Ok(nfa) = NFA::compiler().configure(NFA::config().utf8(cur.utf8)).build_from_hir(&h) {
                            lf.vm = PikeVM::builder().configure(PikeVM::config().match_kind(MatchKind::All)).build_from_nfa(nfa).ok();
                        }
                    }
                    if lf.vm.is_none() {
                        cur.broken = true;
                    }
                }
            }
            "CB" => {
                let i: usize = t[1].parse().unwrap();
                if let Some(lf) = cur.leaves.get_mut(i) {
                    lf.cb = t[2].parse().unwrap();
                }
            }
            "ERRCB" => cur.errcb = t[1] == "1",
            "Q" if t.len() >= 4 && t[1] == "REF" => {
                // `Q REF <hex> <resume positions: comma separated "p>q">`
                let hay = unhex(t[2]);
                let mut table = std::collections::HashMap::new();
                if t[3] != "-" {
                    for pr in t[3].split(',') {
                        let mut it = pr.split('>');
                        let a: usize = it.next().unwrap().parse().unwrap();
                        let b: usize = it.next().unwrap().parse().unwrap();
                        table.insert(a, b);
                    }
                }
                let s = if cur.broken { "BADPATTERN".to_string() } else { cur.lex(&hay, &|p| table.get(&p).copied()) };
                writeln!(out, "{} REF {} : {}", cur.name, t[2], s).unwrap();
            }
            _ => {}
        }
    }
}
