//! Reference matcher built on the `regex` crate (the oracle the properties name).
//! stdin:  `P <unicode> <icase> <hex pattern>`   set the current pattern, compiled as ^(?:pat)$ (bytes API)
//!         `L <unicode> <icase> <hex literal>`   same, pattern = regex::escape(literal) (for byte literals: \xNN escapes)
//!         `W <hex>`                             print 1/0: does the current pattern match the whole string
use std::io::{BufRead, Write};

fn unhex(s: &str) -> Vec<u8> {
    if s == "-" {
        return vec![];
    }
    (0..s.len() / 2)
        .map(|i| u8::from_str_radix(&s[2 * i..2 * i + 2], 16).unwrap())
        .collect()
}

fn build(pat: &str, unicode: bool, icase: bool) -> Option<regex::bytes::Regex> {
    regex::bytes::RegexBuilder::new(&format!("^(?:{})$", pat))
        .unicode(unicode)
        .case_insensitive(icase)
        .build()
        .ok()
}

fn main() {
    let stdin = std::io::stdin();
    let stdout = std::io::stdout();
    let mut out = std::io::BufWriter::new(stdout.lock());
    let mut cur: Option<regex::bytes::Regex> = None;
    for line in stdin.lock().lines() {
        let line = line.unwrap();
        let t: Vec<&str> = line.split(' ').collect();
        match t[0] {
            "P" => {
                let pat = String::from_utf8(unhex(t[3])).unwrap_or_default();
                cur = build(&pat, t[1] == "1", t[2] == "1");
                writeln!(out, "{}", if cur.is_some() { "OK" } else { "BADPATTERN" }).unwrap();
            }
            "L" => {
                let bytes = unhex(t[3]);
                let unicode = t[1] == "1";
                let pat = if unicode {
                    regex::escape(&String::from_utf8(bytes).unwrap_or_default())
                } else {
                    bytes.iter().map(|b| format!("\\x{:02X}", b)).collect::<String>()
                };
                cur = build(&pat, unicode, t[2] == "1");
                writeln!(out, "{}", if cur.is_some() { "OK" } else { "BADPATTERN" }).unwrap();
            }
            "W" => {
                let w = unhex(t[1]);
                let r = match &cur {
                    Some(re) => {
                        if re.is_match(&w) {
                            "1"
                        } else {
                            "0"
                        }
                    }
                    None => "?",
                };
                writeln!(out, "{}", r).unwrap();
            }
            _ => {}
        }
    }
}
