//! Exercises the logos runtime library directly (no model here; the model runs in Lean):
//!   READ <hexsrc> <off> <size>            Source::read::<&[u8; size]> (size 0 = u8) on str and [u8]
//!   BUMP <s|b> <hexsrc> <nexts> <n>       n decimal; run `nexts` calls of next(), then bump(n) under catch_unwind
//!                                         (kinds sS sB sR sC bV bB bA: hand-written lexers whose Source is String, Box<str>, Rc<str>, Cow<str>, Vec<u8>, Box<[u8]>, Arc<[u8]>)
//!   CBUMP <s|b> <hexsrc> <nexts> <n>      `nexts` calls of next() whose callbacks bump(0), then one call of next() under catch_unwind
//!                                         whose callback calls bump(n); the definitions have a skip, so the call may pass trivia first
//!   SRC  <hexsrc>                         every Source method on Deref wrappers (String, Box<str>, &str, Vec<u8>, Box<[u8]>, &[u8])
//!                                         against the base impls (str, [u8]) at every index 0..=len+2
//!   API  <hexsrc> <partial 0|1> <ops..>   history of Lexer API calls on a pool of lexers of two token types (str source)
//!   APIB <hexsrc> <partial 0|1> <ops..>   the same over a [u8] source (TokC / TokD)
use logos::{Lexer, Logos, Source};
use std::io::{BufRead, Write};
use std::panic::{catch_unwind, AssertUnwindSafe};

#[derive(Logos, Debug, PartialEq, Clone)]
#[logos(extras = u32)]
pub enum TokA {
    #[regex("[a-z]+")]
    Word,
    // (a look-ahead at the end: the only kind of pattern whose accept is recorded one byte late)
    #[regex("[0-9]+(?-u:\\b)")]
    Num,
    #[token("é")]
    E,
    #[token("中")]
    Zh,
    #[token("#é")]
    HashE,
    #[token("=😀")]
    EqSmile,
    #[regex("[😀-😏]")]
    Smile,
    #[regex(" +", logos::skip)]
    Ws,
}

#[derive(Logos, Debug, PartialEq, Clone)]
#[logos(extras = u32)]
pub enum TokB {
    #[regex("[a-z0-9]+")]
    Alnum,
    #[regex("[^a-z0-9 ]")]
    Other,
    #[token(" ")]
    Space,
}

#[derive(Logos, Debug, PartialEq, Clone)]
#[logos(utf8 = false)]
#[logos(extras = u32)]
pub enum TokD {
    #[regex(b"[a-z\x80-\xff]+")]
    Run,
    #[regex(b"[^a-z\x80-\xff]")]
    Other,
}

#[derive(Logos, Debug, PartialEq, Clone)]
#[logos(utf8 = false)]
#[logos(extras = u32)]
pub enum TokC {
    #[regex("[a-z]+")]
    Word,
    #[regex(b"[\x80-\xff]+")]
    High,
    #[token(" ")]
    Sp,
}

#[derive(Default, Clone, Debug, PartialEq)]
pub struct Ex {
    n: usize,
    seen_start: usize,
    seen_end: usize,
    called: u32,
}

fn cb_bump_s(lex: &mut Lexer<TokE>) {
    lex.extras.seen_start = lex.span().start;
    lex.extras.seen_end = lex.span().end;
    lex.extras.called += 1;
    let n = lex.extras.n;
    lex.bump(n);
}

fn cb_bump_b(lex: &mut Lexer<TokF>) {
    lex.extras.seen_start = lex.span().start;
    lex.extras.seen_end = lex.span().end;
    lex.extras.called += 1;
    let n = lex.extras.n;
    lex.bump(n);
}

#[derive(Logos, Debug, PartialEq, Clone)]
#[logos(extras = Ex)]
#[logos(skip " +")]
#[logos(skip "/[*][^*]*[*]/")]
pub enum TokE {
    #[regex("[a-z]+", cb_bump_s)]
    Word,
    #[token("=", cb_bump_s)]
    Eq,
    #[token("é", cb_bump_s)]
    E,
    #[regex("[0-9]+")]
    Num,
}

#[derive(Logos, Debug, PartialEq, Clone)]
#[logos(utf8 = false)]
#[logos(extras = Ex)]
#[logos(skip " +")]
pub enum TokF {
    #[regex("[a-z]+", cb_bump_b)]
    Word,
    #[token("=", cb_bump_b)]
    Eq,
    #[regex(b"[\x80-\xff]", cb_bump_b)]
    High,
    #[regex("[0-9]+")]
    Num,
}

macro_rules! cbump_impl {
    ($fname:ident, $tok:ty, $src:ty, $isb:expr, $tohex:expr) => {
        fn $fname(src: &$src, nexts: usize, n: usize) -> String {
            let mut lex = <$tok>::lexer(src);
            for _ in 0..nexts {
                lex.next();
            }
            let before = lex.extras.called;
            lex.extras.n = n;
            let r = catch_unwind(AssertUnwindSafe(|| lex.next().is_some()));
            if lex.extras.called == before {
                return "NOCALL".into();
            }
            let sp = lex.span();
            let isb: fn(&$src, usize) -> bool = $isb;
            let valid = sp.start <= sp.end && sp.end <= src.len() && isb(src, sp.start) && isb(src, sp.end);
            let mut out = format!(
                "pre:{}-{} {} {} {}",
                lex.extras.seen_start,
                lex.extras.seen_end,
                if r.is_ok() { "ok" } else { "panic" },
                sp.start,
                sp.end
            );
            if valid {
                let tohex: fn(&$src) -> String = $tohex;
                let sl = catch_unwind(AssertUnwindSafe(|| (tohex(lex.slice()), tohex(lex.remainder()))));
                match sl {
                    Ok((a, b)) => out.push_str(&format!(" {} {}", a, b)),
                    Err(_) => out.push_str(" SLICEPANIC"),
                }
            } else {
                out.push_str(" INVALIDSPAN");
            }
            out
        }
    };
}
cbump_impl!(do_cbump_str, TokE, str, |s, i| s.is_char_boundary(i), |x| hex(x.as_bytes()));
cbump_impl!(do_cbump_bytes, TokF, [u8], |s, i| i <= s.len(), |x| hex(x));

fn unhex(s: &str) -> Vec<u8> {
    if s == "-" {
        return vec![];
    }
    (0..s.len() / 2).map(|i| u8::from_str_radix(&s[2 * i..2 * i + 2], 16).unwrap()).collect()
}
fn hex(b: &[u8]) -> String {
    if b.is_empty() {
        return "-".into();
    }
    b.iter().map(|x| format!("{:02x}", x)).collect()
}

fn rd<const N: usize>(src: &[u8], off: usize) -> (Option<Vec<u8>>, Option<Vec<u8>>) {
    let a = <[u8] as Source>::read::<&[u8; N]>(src, off).map(|c| c.to_vec());
    let b = match std::str::from_utf8(src) {
        Ok(s) => <str as Source>::read::<&[u8; N]>(s, off).map(|c| c.to_vec()),
        Err(_) => a.clone(),
    };
    (a, b)
}

macro_rules! dispatch {
    ($n:expr, $src:expr, $off:expr, [$($k:literal),*]) => {
        match $n { $( $k => rd::<$k>($src, $off), )* _ => (None, None) }
    };
}

fn do_read(src: &[u8], off: usize, size: usize) -> String {
    // present the source as a prefix of a longer allocation filled with a sentinel
    let mut buf = src.to_vec();
    buf.extend_from_slice(&[0xEEu8; 40]);
    let s = &buf[..src.len()];
    let (a, b) = if size == 0 {
        let a = <[u8] as Source>::read::<u8>(s, off).map(|c| vec![c]);
        let b = match std::str::from_utf8(s) {
            Ok(st) => <str as Source>::read::<u8>(st, off).map(|c| vec![c]),
            Err(_) => a.clone(),
        };
        (a, b)
    } else {
        dispatch!(size, s, off, [1, 2, 3, 4, 5, 6, 7, 8, 9, 10, 11, 12, 13, 14, 15, 16, 17, 18, 19, 20, 21, 22, 23, 24, 25, 26, 27, 28, 29, 30, 31, 32])
    };
    let f = |x: Option<Vec<u8>>| match x {
        Some(v) => format!("some:{}", hex(&v)),
        None => "none".to_string(),
    };
    if a != b {
        format!("DIFF bytes={} str={}", f(a), f(b))
    } else {
        f(a)
    }
}

fn do_bump_str(src: &str, nexts: usize, n: usize) -> String {
    let mut lex = TokA::lexer(src);
    for _ in 0..nexts {
        lex.next();
    }
    let pre = lex.span();
    let r = catch_unwind(AssertUnwindSafe(|| lex.bump(n)));
    let sp = lex.span();
    let valid = sp.start <= sp.end && sp.end <= src.len() && src.is_char_boundary(sp.start) && src.is_char_boundary(sp.end);
    let mut out = format!("pre:{}-{} {} {} {}", pre.start, pre.end, if r.is_ok() { "ok" } else { "panic" }, sp.start, sp.end);
    if valid {
        // only then is it defined to look at the slices
        let sl = catch_unwind(AssertUnwindSafe(|| (lex.slice().to_string(), lex.remainder().to_string())));
        match sl {
            Ok((a, b)) => out.push_str(&format!(" {} {}", hex(a.as_bytes()), hex(b.as_bytes()))),
            Err(_) => out.push_str(" SLICEPANIC"),
        }
    } else {
        out.push_str(" INVALIDSPAN");
    }
    out
}

// ---- bump on lexers whose Source is a Deref wrapper (String, Box<str>, &str, Rc<str>, Vec<u8>, Box<[u8]>, &[u8]) -------------
// The derive only ever picks `str` or `[u8]`; a hand-written `impl Logos` may name any `Source`.  The token type steps over one
// character (text) or one byte per call of `next()`.
trait Chunk {
    fn first_len(&self) -> usize;
    fn as_bytes_(&self) -> &[u8];
}
impl Chunk for &str {
    fn first_len(&self) -> usize {
        self.chars().next().map_or(0, |c| c.len_utf8())
    }
    fn as_bytes_(&self) -> &[u8] {
        self.as_bytes()
    }
}
impl Chunk for &[u8] {
    fn first_len(&self) -> usize {
        usize::from(!self.is_empty())
    }
    fn as_bytes_(&self) -> &[u8] {
        self
    }
}

macro_rules! wrapper_lexer {
    ($tok:ident, $fname:ident, $src:ty, $text:expr, $mk:expr) => {
        #[derive(Debug, PartialEq, Clone)]
        pub struct $tok;
        impl<'s> Logos<'s> for $tok {
            type Extras = ();
            type Source = $src;
            type Error = ();
            fn lex(lex: &mut Lexer<'s, Self>) -> Option<Result<Self, ()>> {
                let n = lex.remainder().first_len();
                if n == 0 {
                    return None;
                }
                lex.bump(n);
                Some(Ok($tok))
            }
        }
        fn $fname(raw: &[u8], nexts: usize, n: usize) -> String {
            #[allow(clippy::redundant_closure_call)]
            let owned: $src = match ($mk)(raw) {
                Some(x) => x,
                None => return "NOTUTF8".into(),
            };
            let mut lex = Lexer::<$tok>::new(&owned);
            for _ in 0..nexts {
                lex.next();
            }
            let pre = lex.span();
            let r = catch_unwind(AssertUnwindSafe(|| lex.bump(n)));
            let sp = lex.span();
            let on_boundary = |i: usize| !$text || i == 0 || i >= raw.len() || (raw[i] & 0xC0) != 0x80;
            let valid = sp.start <= sp.end && sp.end <= raw.len() && on_boundary(sp.start) && on_boundary(sp.end);
            let mut out = format!("pre:{}-{} {} {} {}", pre.start, pre.end, if r.is_ok() { "ok" } else { "panic" }, sp.start, sp.end);
            if valid {
                let sl = catch_unwind(AssertUnwindSafe(|| (lex.slice().as_bytes_().to_vec(), lex.remainder().as_bytes_().to_vec())));
                match sl {
                    Ok((a, b)) => out.push_str(&format!(" {} {}", hex(&a), hex(&b))),
                    Err(_) => out.push_str(" SLICEPANIC"),
                }
            } else {
                out.push_str(" INVALIDSPAN");
            }
            out
        }
    };
}

fn text_of(raw: &[u8]) -> Option<&str> {
    std::str::from_utf8(raw).ok()
}
wrapper_lexer!(WString, do_bump_string, String, true, |r: &[u8]| text_of(r).map(String::from));
wrapper_lexer!(WBoxStr, do_bump_boxstr, Box<str>, true, |r: &[u8]| text_of(r).map(Box::<str>::from));
wrapper_lexer!(WRcStr, do_bump_rcstr, std::rc::Rc<str>, true, |r: &[u8]| text_of(r).map(std::rc::Rc::<str>::from));
wrapper_lexer!(WCow, do_bump_cow, std::borrow::Cow<'static, str>, true, |r: &[u8]| text_of(r).map(|t| std::borrow::Cow::Owned(t.to_string())));
wrapper_lexer!(WVec, do_bump_vec, Vec<u8>, false, |r: &[u8]| Some(r.to_vec()));
wrapper_lexer!(WBoxBytes, do_bump_boxbytes, Box<[u8]>, false, |r: &[u8]| Some(Box::<[u8]>::from(r)));
wrapper_lexer!(WArc, do_bump_arcbytes, std::sync::Arc<[u8]>, false, |r: &[u8]| Some(std::sync::Arc::<[u8]>::from(r)));

fn do_bump_bytes(src: &[u8], nexts: usize, n: usize) -> String {
    let mut lex = TokC::lexer(src);
    for _ in 0..nexts {
        lex.next();
    }
    let pre = lex.span();
    let r = catch_unwind(AssertUnwindSafe(|| lex.bump(n)));
    let sp = lex.span();
    let valid = sp.start <= sp.end && sp.end <= src.len();
    let mut out = format!("pre:{}-{} {} {} {}", pre.start, pre.end, if r.is_ok() { "ok" } else { "panic" }, sp.start, sp.end);
    if valid {
        let sl = catch_unwind(AssertUnwindSafe(|| (lex.slice().to_vec(), lex.remainder().to_vec())));
        match sl {
            Ok((a, b)) => out.push_str(&format!(" {} {}", hex(&a), hex(&b))),
            Err(_) => out.push_str(" SLICEPANIC"),
        }
    } else {
        out.push_str(" INVALIDSPAN");
    }
    out
}

fn item<T: std::fmt::Debug, E>(r: Option<Result<T, E>>) -> String {
    match r {
        Some(Ok(t)) => format!("{:?}", t),
        Some(Err(_)) => "Err".into(),
        None => "None".into(),
    }
}

macro_rules! api_impl {
    ($fname:ident, $any:ident, $state:ident, $ta:ty, $tb:ty, $src:ty, $isb:expr) => {
        enum $any<'s> {
            A(logos::SpannedIter<'s, $ta>),
            B(logos::SpannedIter<'s, $tb>),
        }

        fn $state<'s>(l: &$any<'s>, src: &'s $src, src2: &'s $src) -> String {
            macro_rules! st {
                ($x:expr, $t:literal) => {{
                    let sp = $x.span();
                    let isb: fn(&$src, usize) -> bool = $isb;
                    // the source the lexer itself reports: 0 = the first, 1 = the second, 9 = neither
                    let cur: &$src = $x.source();
                    let tag = if std::ptr::eq(cur, src) { 0 } else if std::ptr::eq(cur, src2) { 1 } else { 9 };
                    let ok = sp.start <= sp.end && sp.end <= cur.len() && isb(cur, sp.start) && isb(cur, sp.end);
                    if ok {
                        let good = $x.slice() == &cur[sp.clone()] && $x.remainder() == &cur[sp.end..];
                        format!("{}:{}-{}:x{}:s{}{}", $t, sp.start, sp.end, $x.extras, tag, if good { "" } else { ":BADSLICE" })
                    } else {
                        format!("{}:{}-{}:s{}:BADSPAN", $t, sp.start, sp.end, tag)
                    }
                }};
            }
            match l {
                $any::A(x) => st!(x, "A"),
                $any::B(x) => st!(x, "B"),
            }
        }

        fn $fname(src: &$src, src2: &$src, partial: bool, ops: &[&str]) -> String {
            let first = if partial { Lexer::<$ta>::partial_with_extras(src, 7) } else { Lexer::<$ta>::with_extras(src, 7) };
            let mut pool: Vec<$any> = vec![$any::A(first.spanned())];
            let mut out = String::new();
            let mut i = 0;
            while i < ops.len() {
                let op = ops[i];
                let idx: usize = ops.get(i + 1).and_then(|s| s.parse().ok()).unwrap_or(0) % pool.len();
                match op {
                    "next" => {
                        let r = match &mut pool[idx] {
                            $any::A(x) => item((**x).next()),
                            $any::B(x) => item((**x).next()),
                        };
                        out.push_str(&format!("{}={} ", r, $state(&pool[idx], src, src2)));
                        i += 2;
                    }
                    "snext" => {
                        let r = match &mut pool[idx] {
                            $any::A(x) => x.next().map(|(t, s)| format!("{}@{}-{}", item(Some(t)), s.start, s.end)).unwrap_or("None".into()),
                            $any::B(x) => x.next().map(|(t, s)| format!("{}@{}-{}", item(Some(t)), s.start, s.end)).unwrap_or("None".into()),
                        };
                        out.push_str(&format!("{}={} ", r, $state(&pool[idx], src, src2)));
                        i += 2;
                    }
                    "bump" => {
                        let n: usize = ops[i + 2].parse().unwrap();
                        let r = catch_unwind(AssertUnwindSafe(|| match &mut pool[idx] {
                            $any::A(x) => x.bump(n),
                            $any::B(x) => x.bump(n),
                        }));
                        out.push_str(&format!("{}={} ", if r.is_ok() { "ok" } else { "panic" }, $state(&pool[idx], src, src2)));
                        i += 3;
                    }
                    "clone" => {
                        let c = match &pool[idx] {
                            $any::A(x) => $any::A(x.clone()),
                            $any::B(x) => $any::B(x.clone()),
                        };
                        out.push_str(&format!("clone={} ", $state(&c, src, src2)));
                        pool.push(c);
                        i += 2;
                    }
                    "fresh" => {
                        // a new lexer over the same source in the given mode (the pool then holds lexers of both modes)
                        let p = ops.get(i + 1).map(|s| *s == "1").unwrap_or(false);
                        let k = ops.get(i + 2).map(|s| *s != "0").unwrap_or(false);
                        let which = if k { src2 } else { src };
                        let l = if p { Lexer::<$ta>::partial_with_extras(which, 7) } else { Lexer::<$ta>::with_extras(which, 7) };
                        let c = $any::A(l.spanned());
                        out.push_str(&format!("fresh={} ", $state(&c, src, src2)));
                        pool.push(c);
                        i += 3;
                    }
                    "clonefrom" => {
                        // pool[idx].clone_from(&pool[j]) on the lexers themselves (in place), when they have the same token type
                        let j: usize = ops.get(i + 2).and_then(|s| s.parse().ok()).unwrap_or(0) % pool.len();
                        let tmp = match &pool[j] {
                            $any::A(y) => $any::A(y.clone()),
                            $any::B(y) => $any::B(y.clone()),
                        };
                        match (&mut pool[idx], &tmp) {
                            ($any::A(x), $any::A(y)) => (**x).clone_from(&**y),
                            ($any::B(x), $any::B(y)) => (**x).clone_from(&**y),
                            _ => {}
                        }
                        out.push_str(&format!("clonefrom={} ", $state(&pool[idx], src, src2)));
                        i += 3;
                    }
                    "morph" => {
                        let m = match &pool[idx] {
                            $any::A(x) => $any::B((**x).clone().morph::<$tb>().spanned()),
                            $any::B(x) => $any::A((**x).clone().morph::<$ta>().spanned()),
                        };
                        out.push_str(&format!("morph={} ", $state(&m, src, src2)));
                        pool[idx] = m;
                        i += 2;
                    }
                    _ => {
                        i += 1;
                    }
                }
            }
            out.trim_end().to_string()
        }
    };
}

api_impl!(do_api, AnyLex, state, TokA, TokB, str, |s, i| s.is_char_boundary(i));
api_impl!(do_api_b, AnyLexB, state_b, TokC, TokD, [u8], |s, i| i <= s.len());

fn src_probe<S: Source + ?Sized>(s: &S) -> String {
    let mut out = String::new();
    let n = s.len();
    out.push_str(&format!("len={} ", n));
    for i in 0..=n + 2 {
        let fb = if i <= n { s.find_boundary(i).to_string() } else { "-".into() };
        let r1 = s.read::<u8>(i).map(|b| b as i32).unwrap_or(-1);
        let r2 = s.read::<&[u8; 2]>(i).map(|b| (b[0] as i32) * 256 + b[1] as i32).unwrap_or(-1);
        let sl = s.slice(i..n).is_some() as u8;
        out.push_str(&format!("{}:{}:{}:{}:{}:{} ", i, s.is_boundary(i) as u8, fb, r1, r2, sl));
    }
    out
}

fn do_src(src: &[u8]) -> String {
    let mut diffs = Vec::new();
    let base_b = src_probe::<[u8]>(src);
    let v: Vec<u8> = src.to_vec();
    let bx: Box<[u8]> = src.to_vec().into_boxed_slice();
    let rf: &[u8] = src;
    if src_probe(&v) != base_b {
        diffs.push("Vec<u8>");
    }
    if src_probe(&bx) != base_b {
        diffs.push("Box<[u8]>");
    }
    if src_probe(&rf) != base_b {
        diffs.push("&[u8]");
    }
    if let Ok(s) = std::str::from_utf8(src) {
        let base_s = src_probe::<str>(s);
        let st: String = s.to_string();
        let bs: Box<str> = s.to_string().into_boxed_str();
        let rs: &str = s;
        if src_probe(&st) != base_s {
            diffs.push("String");
        }
        if src_probe(&bs) != base_s {
            diffs.push("Box<str>");
        }
        if src_probe(&rs) != base_s {
            diffs.push("&str");
        }
        // the base impl itself against std: is_boundary = is_char_boundary (in range), find_boundary = next char boundary
        for i in 0..=s.len() + 2 {
            let want = i <= s.len() && s.is_char_boundary(i);
            if <str as Source>::is_boundary(s, i) != want {
                diffs.push("str::is_boundary");
                break;
            }
        }
        for i in 0..=s.len() {
            let mut j = i;
            while !s.is_char_boundary(j) {
                j += 1;
            }
            if <str as Source>::find_boundary(s, i) != j {
                diffs.push("str::find_boundary");
                break;
            }
        }
    }
    for i in 0..=src.len() + 2 {
        if <[u8] as Source>::is_boundary(src, i) != (i <= src.len()) {
            diffs.push("[u8]::is_boundary");
            break;
        }
    }
    if diffs.is_empty() {
        "SAME".into()
    } else {
        format!("DIFF {}", diffs.join(","))
    }
}

fn main() {
    std::panic::set_hook(Box::new(|_| {}));
    let stdin = std::io::stdin();
    let stdout = std::io::stdout();
    let mut out = std::io::BufWriter::new(stdout.lock());
    for line in stdin.lock().lines() {
        let line = line.unwrap();
        let t: Vec<&str> = line.split(' ').collect();
        let ans = match t[0] {
            "READ" => do_read(&unhex(t[1]), t[2].parse().unwrap(), t[3].parse().unwrap()),
            "BUMP" => {
                let src = unhex(t[2]);
                let nexts: usize = t[3].parse().unwrap();
                let n: usize = t[4].parse().unwrap();
                match t[1] {
                    "s" => match std::str::from_utf8(&src) {
                        Ok(s) => do_bump_str(s, nexts, n),
                        Err(_) => "NOTUTF8".into(),
                    },
                    "sS" => do_bump_string(&src, nexts, n),
                    "sB" => do_bump_boxstr(&src, nexts, n),
                    "sR" => do_bump_rcstr(&src, nexts, n),
                    "sC" => do_bump_cow(&src, nexts, n),
                    "bV" => do_bump_vec(&src, nexts, n),
                    "bB" => do_bump_boxbytes(&src, nexts, n),
                    "bA" => do_bump_arcbytes(&src, nexts, n),
                    _ => do_bump_bytes(&src, nexts, n),
                }
            }
            "CBUMP" => {
                let src = unhex(t[2]);
                let nexts: usize = t[3].parse().unwrap();
                let n: usize = t[4].parse().unwrap();
                if t[1] == "s" {
                    match std::str::from_utf8(&src) {
                        Ok(s) => do_cbump_str(s, nexts, n),
                        Err(_) => "NOTUTF8".into(),
                    }
                } else {
                    do_cbump_bytes(&src, nexts, n)
                }
            }
            "API" => {
                let src = unhex(t[1]);
                match std::str::from_utf8(&src) {
                    Ok(s) => {
                        let s2 = format!("é{} zz9", s);
                        let r = catch_unwind(AssertUnwindSafe(|| do_api(s, &s2, t[2] == "1", &t[3..])));
                        r.unwrap_or_else(|_| "PANIC".into())
                    }
                    Err(_) => "NOTUTF8".into(),
                }
            }
            "SRC" => {
                let src = unhex(t[1]);
                catch_unwind(AssertUnwindSafe(|| do_src(&src))).unwrap_or_else(|_| "PANIC".into())
            }
            "APIB" => {
                let src = unhex(t[1]);
                let mut s2: Vec<u8> = vec![0xC3, 0xA9];
                s2.extend_from_slice(&src);
                s2.extend_from_slice(b" zz9");
                let r = catch_unwind(AssertUnwindSafe(|| do_api_b(&src, &s2, t[2] == "1", &t[3..])));
                r.unwrap_or_else(|_| "PANIC".into())
            }
            _ => "BADCMD".into(),
        };
        writeln!(out, "{} : {}", line, ans).unwrap();
    }
}
