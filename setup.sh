#!/bin/sh
# Build the framework from files on disk only (offline).
set -e
cd "$(dirname "$0")"
export CARGO_NET_OFFLINE=true
(cd lean && lake build)
(cd harness && cargo build --offline)
# warm the zoo dependency builds (syn, regex-automata, logos-codegen) for the quick configurations
python3 tools/lexrun.py 1 quick > /dev/null 2>&1 || true
