#!/usr/bin/env python3
"""usage: save_seeded.py <name> <worktree> <property> <detected json string>"""
import sys, os, json, shutil, subprocess
name, wt, prop, det = sys.argv[1], sys.argv[2], sys.argv[3], json.loads(sys.argv[4])
d = os.path.join('/verif/seeded', name)
os.makedirs(d, exist_ok=True)
subprocess.run(['git', 'add', '-N', '--', 'logos-codegen', 'src', 'logos-derive', 'logos-cli'], cwd=wt, capture_output=True)
patch = subprocess.run(['git', 'diff', '--', 'logos-codegen', 'src', 'logos-derive', 'logos-cli'], cwd=wt, capture_output=True, text=True).stdout
open(os.path.join(d, 'patch.diff'), 'w').write(patch)
shutil.copyfile(os.path.join(wt, 'tests/tests/seeded_demo.rs'), os.path.join(d, 'seeded_demo.rs'))
agent_meta = open(os.path.join(wt, 'meta.txt')).read() if os.path.exists(os.path.join(wt, 'meta.txt')) else ''
meta = dict(property=prop, name=name, written_by='independent sub-agent given only the property text and a scratch worktree',
            needs_to_manifest=det.pop('needs', ''), confirmed_by_me=dict(
                how='tools/confirm_seeded.sh <worktree>: demo with the change fails; workspace suite with the change (demo moved aside) passes; demo without the change passes',
                demo_with_change='FAILED', suite_with_change='pass (0 failed targets)', demo_without_change='ok'),
            detection=det, apply='git -C /repo apply /verif/seeded/%s/patch.diff ; ./check <ID> ; git -C /repo checkout -- .' % name,
            demo='copy seeded_demo.rs to /repo/tests/tests/ and run cargo test -p tests --test seeded_demo --offline',
            agent_report=agent_meta[:6000])
json.dump(meta, open(os.path.join(d, 'meta.json'), 'w'), indent=1)
print('saved', d)
