"""How an inline callback is emitted: Lean model (CallbackEmit.lean: leavesEarly / emitFixed) against the text the real derive generates.

A table of closure bodies - with `return` / `?` at the top level, inside blocks, inside nested closures and macro arguments; the
words inside string / character literals, identifiers that only begin with `return`, a raw identifier - is tokenised here into the
tree `InlineCallback::leaves_early` walks, the model says `closure` or `pasted`, and the generated code of the definition
`#[regex("[a-z]+", |lex| BODY)]` is inspected: `let cb_result = (| lex : ..| { .. }) (lex)` or `let cb_result = { let lex = lex ; .. }`.
"""
import re
import pipeline as P

HDR = '#[derive(Logos, Debug, PartialEq, Clone)]'
BODIES = [
    'lex.slice().len() > 3',
    '{ if lex.slice().len() > 3 { return false; } true }',
    '{ let n: u8 = lex.slice().parse().ok()?; Some(n) }',
    'lex.slice().parse::<u8>().ok()?.checked_add(1)',
    '"return?".len() > lex.slice().len()',
    "lex.slice().starts_with('?')",
    'returns(lex)',
    'r#return(lex)',
    'lex.slice().chars().map(|c| Some(c)?.is_ascii_digit().then_some(())).count() > 0',
    'match lex.slice() { "a" => return true, _ => false }',
    '[lex.slice().len(), 1][0] > 0',
    '{ let f = |x: usize| -> Option<usize> { Some(x) }; f(lex.slice().len()).is_some() }',
    'vec![lex.slice().len()].iter().any(|n| { if *n > 2 { return true; } false })',
    '(lex.slice().len(), "?").0 > 1',
    'lex.slice().len() > return_limit()',
    '{ loop { break lex.slice().len() > 2; } }',
    '{ let r#return = 1usize; lex.slice().len() > r#return }',
    'lex.slice().bytes().all(|b| b != b\'?\')',
    # (D19) a declared return type is not a body; a leading minus sign is
    '-> bool { true }',
    '-> bool { return true }',
    '-1i8 == 0',
    '-(lex.slice().len() as i64) > -2',
]
TOK = re.compile(r'''\s*(?:(b?"(?:[^"\\]|\\.)*")|(b?'(?:[^'\\]|\\.)')|(r\#[A-Za-z_][A-Za-z0-9_]*)|([A-Za-z_][A-Za-z0-9_]*)|([0-9][A-Za-z0-9_]*)|([(\[{])|([)\]}])|(.))''', re.S)


def tokens(text):
    out = []
    pos = 0
    text = text.strip()
    while pos < len(text):
        m = TOK.match(text, pos)
        if not m or m.end() == pos:
            break
        pos = m.end()
        s, c, raw, ident, num, op, cl, other = m.groups()
        if s or c or num:
            out.append('l')
        elif raw:
            out.append('i:' + raw)          # proc_macro2 prints a raw identifier with its r# prefix
        elif ident:
            out.append('i:' + ident)
        elif op:
            out.append('(')
        elif cl:
            out.append(')')
        elif other and not other.isspace():
            out.append('p:%d' % ord(other))
    return out


def body_tokens(body):
    """what parse_callback keeps as the body: a brace group that is the whole body is unwrapped"""
    t = tokens(body)
    if t and t[0] == '(' and body.strip().startswith('{'):
        depth = 0
        for k, x in enumerate(t):
            depth += x == '('
            depth -= x == ')'
            if depth == 0:
                if k == len(t) - 1:
                    return t[1:-1]
                break
    return t


def tie(run, log=print):
    srcs = [HDR + '\npub enum T {\n    #[regex("[a-z]+", |lex| %s)] A,\n    #[token("=")] Eq,\n}' % b for b in BODIES]
    caps = P.run_capture(srcs, code=True)
    qs = ['CBEMIT ' + ' '.join(body_tokens(b)) for b in BODIES]
    ans = P.run_lean(['CASE Y'] + ['Q ' + q for q in qs], nproc=1)
    stats = dict(bodies=len(BODIES), agree=0, closure_calls=0, differ=0, samples=[])
    for b, src, q, cap in zip(BODIES, srcs, qs, caps):
        a = ans.get('Y ' + q)
        if a is not None and cap is not None and 'verdict=refused' in a:
            # the model says the derive reports the closure (a declared return type)
            if cap.verdict == 'REJECT':
                stats['agree'] += 1
                stats['refused'] = stats.get('refused', 0) + 1
            else:
                stats['differ'] += 1
                run.violation('tie', dict(definition=src, body=b, model='refused', derive=cap.verdict,
                                          what='the model of parse_callback (CallbackEmit.headFixed: a closure that declares its return type is reported) and the derive disagree',
                                          correspondence='Parser::parse_callback vs LogosModel.CallbackEmit.headFixed'), no_input=True, key='cbhead|' + b)
            continue
        if a is None or cap is None or cap.verdict != 'ACCEPT' or not cap.codetext:
            stats['samples'].append(dict(body=b, verdict=getattr(cap, 'verdict', None), model=a))
            continue
        want = re.search(r'fixed=(\w+)', a).group(1)
        got = 'closure' if re.search(r'let cb_result = \(\s*\|', cap.codetext) else 'pasted'
        stats['closure_calls'] += got == 'closure'
        if got == want:
            stats['agree'] += 1
        else:
            stats['differ'] += 1
            run.violation('tie', dict(definition=src, body=b, model=want, derive=got,
                                      what='the model of how an inline callback is emitted (CallbackEmit.emitFixed: a body with `return` / `?` at any depth becomes a closure called on the spot) and the generated code disagree',
                                      correspondence='InlineCallback::leaves_early + Generator::generate_callback vs LogosModel.CallbackEmit'),
                          no_input=True, key='cbemit|' + b)
    stats['what'] = 'CallbackEmit.leavesEarly / emitFixed on the token tree of closure bodies vs the text the derive generates (closure call or pasted block); theorem leavesEarly_iff'
    return stats
