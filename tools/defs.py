"""Lexer definitions (the corpus): data classes, Rust rendering, seeded generators."""
import random
from regexgen import gen_regex, Lit, Node

# callback kinds, see lean/LogosModel/Callback.lean `zooRet`
UNIT_CBS = [1, 2, 3, 4, 5, 6, 7, 8, 9, 10, 20]
VALUE_CBS = [11, 12, 13, 14, 15, 21]
SKIP_CBS = [16, 17, 18, 19, 22]


def rust_str(s):
    out = []
    for ch in s:
        o = ord(ch)
        if ch == '\\':
            out.append('\\\\')
        elif ch == '"':
            out.append('\\"')
        elif o < 32 or o == 127:
            out.append('\\u{%x}' % o)
        else:
            out.append(ch)
    return '"' + ''.join(out) + '"'


def rust_bytes(b):
    out = []
    for o in b:
        ch = chr(o)
        if ch == '\\':
            out.append('\\\\')
        elif ch == '"':
            out.append('\\"')
        elif 32 <= o < 127:
            out.append(ch)
        else:
            out.append('\\x%02x' % o)
    return 'b"' + ''.join(out) + '"'


class Leaf:
    def __init__(self, kind, pat, prio=None, ignore_case=False, cb=0, is_bytes=False, allow_greedy=None,
                 value=False, ast=None, variant=None):
        self.kind = kind            # 'token' | 'regex' | 'skip'
        self.pat = pat              # str, or bytes when is_bytes
        self.prio = prio
        self.ignore_case = ignore_case
        self.cb = cb
        self.is_bytes = is_bytes
        self.allow_greedy = allow_greedy
        self.value = value          # value variant W(usize) instead of unit variant
        self.ast = ast
        self.variant = variant      # assigned by Def
        self.arg_order = None       # optional permutation of named args (C18)

    def lit(self):
        return rust_bytes(self.pat) if self.is_bytes else rust_str(self.pat)

    def named_args(self):
        args = []
        if self.prio is not None:
            args.append('priority = %d' % self.prio)
        if self.cb:
            form = getattr(self, 'cb_form', 0)
            if form == 1:
                args.append('callback = self::cb%d' % self.cb)          # path label
            elif form == 2:
                args.append('callback = as_skip%d::skip' % self.cb)     # a user function that happens to be called `skip`
            elif form == 3:
                args.append('callback = |lex| cb%d(lex)' % self.cb)     # inline closure
            elif form == 4 and self.cb in (11, 21):
                # inline closure whose body is an expression that *begins* with a parenthesised group (same value as cbN)
                args.append('callback = |lex| (cb%d(lex) + 1) * 2 / 2 - 1' % self.cb)
            elif form == 4 and self.cb == 1:
                args.append('callback = |lex| (!cb%d(lex)) == false' % self.cb)
            elif form == 7 and self.cb == 27:
                # a closure that hands the lexer to a function and goes on with what it returned (round 28)
                args.append('callback = |lex| cb27i(lex) == false')
            elif form == 7 and self.cb == 28:
                args.append('callback = |lex| cb28i(lex).filter(|_| false)')
            elif form == 6 and self.cb in (9, 12):
                # inline closure that leaves early with `?` (D17: the body is pasted into a function of the generated code)
                args.append('callback = |lex| { let v = cb%d(lex)?; Some(v) }' % self.cb)
            elif form == 6:
                # ... or with `return` (same value as cbN: the first branch is never taken)
                args.append('callback = |lex| { if lex.slice().len() > 100000 { return cb%d(lex); } cb%d(lex) }' % (self.cb, self.cb))
            elif form == 5 and self.cb == 3:
                args.append('callback = logos::skip')                   # the function the library itself provides
            elif form == 4:
                args.append('callback = |lex| { cb%d(lex) }' % self.cb)  # ... or a block
            else:
                args.append('callback = cb%d' % self.cb)
        if self.ignore_case:
            args.append('ignore(case)')
        if self.allow_greedy is not None:
            args.append('allow_greedy = %s' % ('true' if self.allow_greedy else 'false'))
        if self.arg_order:
            args = [args[i] for i in self.arg_order if i < len(args)]
        return args

    def attr_body(self):
        return ', '.join([self.lit()] + self.named_args())


class Def:
    def __init__(self, leaves, utf8=True, errcb=False, zerr=None, subpatterns=None, name='T', origin='gen'):
        self.leaves = leaves
        self.utf8 = utf8
        self.errcb = errcb
        self.subpatterns = subpatterns or []   # [(name, pattern str)]
        self.origin = origin
        need_zerr = errcb or any(l.cb in (4, 6, 8, 10, 13, 15, 18, 19, 23, 24) for l in leaves)
        self.zerr = need_zerr if zerr is None else (zerr or need_zerr)
        self.name = name
        # how the error type is written in `error(<type>, callback = ..)` and how the error callback builds its value
        # (zoo_rt has an ErrTag impl for each): None = the enum ZErr
        self.errty = None
        self.assign_variants()

    def assign_variants(self):
        """(re)name the variants; must be called again after leaves have been added"""
        nu = nv = ns = 0
        for l in self.leaves:
            if l.kind == 'skip':
                l.variant = '_'
            elif l.value and not l.cb:
                l.variant = 'S%d' % ns
                ns += 1
            elif l.value:
                l.variant = 'W%d' % nv
                nv += 1
            else:
                l.variant = 'V%d' % nu
                nu += 1

    def has_lifetime(self):
        return any(l.kind != 'skip' and l.value and not l.cb for l in self.leaves)

    def cb_kinds(self):
        """callback kinds in the derive's leaf order: skips first (attribute order), then variants"""
        skips = [l for l in self.leaves if l.kind == 'skip']
        others = [l for l in self.leaves if l.kind != 'skip']
        return [l.cb for l in skips + others]

    def ordered_leaves(self):
        skips = [l for l in self.leaves if l.kind == 'skip']
        others = [l for l in self.leaves if l.kind != 'skip']
        return skips + others

    def source(self, enum_name=None, derives='Logos, Debug, PartialEq, Clone'):
        n = enum_name or self.name
        out = ['#[derive(%s)]' % derives]
        if not self.utf8:
            out.append('#[logos(utf8 = false)]')
        if self.errcb and self.errty:
            out.append('#[logos(error(%s, callback = |lex| %s))]' % self.errty)
        elif getattr(self, 'errty_plain', None):
            out.append('#[logos(%s)]' % self.errty_plain)    # an error type without an error callback: `error = T` / `error(T)`
        elif self.errcb:
            out.append('#[logos(error(ZErr, callback = |lex| ZErr::Cb(lex.span().len())))]')
        elif self.zerr:
            out.append('#[logos(error = ZErr)]')
        for (nm, pat) in self.subpatterns:
            out.append('#[logos(subpattern %s = %s)]' % (nm, rust_str(pat) if isinstance(pat, str) else rust_bytes(pat)))
        for l in self.leaves:
            if l.kind == 'skip':
                if l.named_args():
                    out.append('#[logos(skip(%s))]' % l.attr_body())
                else:
                    out.append('#[logos(skip %s)]' % l.lit())
        slice_ty = "&'s str" if self.utf8 else "&'s [u8]"
        out.append('pub enum %s%s {' % (n, "<'s>" if self.has_lifetime() else ''))
        for l in self.leaves:
            if l.kind == 'skip':
                continue
            attr = '#[%s(%s)]' % ('token' if l.kind == 'token' else 'regex', l.attr_body())
            out.append('    %s %s%s,' % (attr, l.variant, ('(usize)' if l.cb else '(%s)' % slice_ty) if l.value else ''))
        out.append('    Alt,')
        out.append('}')
        return '\n'.join(out)

    def alphabet(self):
        s = set('ab ')
        for l in self.leaves:
            if l.ast is not None:
                s |= l.ast.chars()
            elif not l.is_bytes:
                s |= set(l.pat) if l.kind == 'token' else set()
        return sorted(s)


def pick_cb(R, leaf, p=0.0):
    if R.random() >= p:
        return 0
    if leaf.kind == 'skip':
        return R.choice(SKIP_CBS)
    if leaf.value:
        return R.choice(VALUE_CBS)
    return R.choice(UNIT_CBS)


def gen_def(R, opts=None):
    """one random definition; most are valid, ambiguous/empty ones are filtered by the real derive"""
    opts = opts or {}
    k = R.choice([1, 2, 2, 3, 3, 4, 5])
    leaves = []
    explicit = R.random() < 0.5
    prios = R.sample(range(1, 40), k)
    have_skip = False
    for j in range(k):
        r = R.random()
        if r < 0.25:
            s = R.choice(['a', 'ab', 'abc', 'if', 'b', 'ca', 'é', 'a+', 'x.y', '中', 'ba', 'aa', '(', 'd', 'dd', ' ', '0', 'ab ', 'else'])
            lf = Leaf('token', s, ast=Lit(s))
            if R.random() < 0.15:
                lf.ignore_case = True
        else:
            ast = gen_regex(R, 2, opts)
            lf = Leaf('regex', ast.render(), ast=ast)
            if R.random() < 0.06:
                lf.ignore_case = True
        if not have_skip and R.random() < 0.3 and lf.kind == 'regex':
            lf.kind = 'skip'
            have_skip = True
        elif R.random() < 0.2:
            lf.value = True
        if explicit or R.random() < 0.3:
            lf.prio = prios[j]
        lf.cb = pick_cb(R, lf, opts.get('cb_p', 0.0))
        lf.cb_form = R.choice([0, 0, 1, 2, 3])
        leaves.append(lf)
    if R.random() < 0.06:
        nl = Leaf(R.choice(['regex', 'skip']), R.choice(['a*', '[0-9]*', '(b|)', 'c?']), prio=R.choice([1, 3, 7]))
        leaves.append(nl)
    if all(l.kind == 'skip' for l in leaves):
        leaves[0].kind = 'regex'
    d = Def(leaves, utf8=(R.random() >= opts.get('bytes_p', 0.1)), errcb=(R.random() < opts.get('errcb_p', 0.0)))
    return d


LOOKS_END = ['$', '(?-u:\\b)', '(?m:$)', '(?-u:\\B)', '(?mR:$)', '(?-u:\\b{end})', '(?-u:\\b{end-half})']
LOOKS_MID = ['(?-u:\\b)', '(?-u:\\B)', '(?m:$)', '(?m:^)', '(?mR:$)', '(?mR:^)', '(?-u:\\b{start})', '(?-u:\\b{end})',
             '(?-u:\\b{start-half})', '(?-u:\\b{end-half})', '$', '^']
LOOK_TAILS = ['-', ' ', '[a-z]', '\\n', '\\r\\n', '[0-9]+', '\\r?\\n', '[ -~]', '_?x']


def with_look(R, d):
    """put a look-around assertion at the end of one regex leaf, or between a leaf and a short tail"""
    c = [l for l in d.leaves if l.kind == 'regex' and not getattr(l, 'is_bytes', False)]
    if not c:
        d.assign_variants()
        return d
    l = R.choice(c)
    if R.random() < 0.3:
        # a second leaf matching the same text only in some contexts, at a higher or lower explicit priority
        # (the winner then depends on what follows the match)
        sh = Leaf('regex', '(?:' + l.pat + ')' + R.choice(LOOKS_END), prio=R.choice([90, 90, 0]))
        sh.look = True
        d.leaves.append(sh)
        d.assign_variants()
        return d
    if R.random() < 0.25:
        # the assertion needs the next byte, and another pattern continues through that byte: the state entered by
        # the look-ahead byte records the first pattern's match one byte late *and* has outgoing edges
        base = l.pat
        l.pat = '(?:' + base + ')' + R.choice(['(?-u:\\b)', '(?m:$)', '(?-u:\\b{end})', '(?mR:$)', '(?-u:\\B)'])
        l.look = True
        d.leaves.append(Leaf('regex', '(?:' + base + ')' + R.choice([' !', '\\n\\n', '-[a-z]+', '\\r\\n;', '[ -/]{2}', 'x_', '\\n[a-z]'])))
        if R.random() < 0.5:
            d.leaves.append(Leaf(R.choice(['regex', 'skip']), R.choice(['[ \\n]', ' ', '\\r?\\n'])))
        d.assign_variants()
        return d
    if R.random() < 0.2:
        # plain alternative | alternative ending in a look-ahead, in one leaf
        l.pat = R.choice(['!', '\\|\\|?', '=', '\\n', '#']) + '|(?:' + l.pat + ')' + R.choice(['(?-u:\\b)', '$', '(?m:$)', '(?-u:\\b{end})'])
        l.look = True
        if l.prio is None:
            l.prio = 10
        d.assign_variants()
        return d
    if R.random() < 0.5:
        l.pat = '(?:' + l.pat + ')' + R.choice(LOOKS_END)
    else:
        l.pat = '(?:' + l.pat + ')' + R.choice(LOOKS_MID) + R.choice(LOOK_TAILS)
    l.look = True
    if R.random() < 0.3:
        # a second leaf competing around line ends / word ends
        d.leaves.append(Leaf('regex', R.choice(['\\r?\\n', '[a-z0-9_]+', '[ -~]', '\\r'])))
    d.assign_variants()
    return d


FIXED = []


def fixed_corpus():
    """hand-written definitions covering the shapes listed in DESIGN.md 7.3"""
    if FIXED:
        return FIXED
    L = Leaf
    out = []
    # keywords vs identifiers, whitespace skip, numbers
    out.append(Def([L('skip', '[ \\t\\n]+'), L('token', 'if'), L('token', 'else'), L('token', 'ifx'),
                    L('regex', '[a-z_][a-z0-9_]*'), L('regex', '[0-9]+', value=True), L('regex', '[0-9]+\\.[0-9]+'),
                    L('token', '=='), L('token', '='), L('token', '(')], origin='fixed:kw'))
    # roots merged with a loop state, self loops on root
    out.append(Def([L('regex', 'a*b'), L('regex', 'c+'), L('token', 'd')], origin='fixed:astarb'))
    # many distinct LUT classes (>= 9) and if-chains vs jump tables
    out.append(Def([L('regex', '[aceg]+x'), L('regex', '[bdfh]+y'), L('regex', '[ikmo]+z'), L('regex', '[jlnp]+w'),
                    L('regex', '[qsuw]+A'), L('regex', '[rtvy]+B'), L('regex', '[0246]+C'), L('regex', '[1357]+D'),
                    L('regex', '[!#%]+E'), L('regex', '[;:,]+F'), L('regex', '[<=>]{2,}')], origin='fixed:luts'))
    # class with one-byte holes, ranges touching 0 / 255 (byte mode)
    out.append(Def([L('regex', '[a-ce-gi-k]+'), L('regex', '(?-u)[\\x00-\\x10]+'), L('regex', '(?-u)[\\xf0-\\xff]+'),
                    L('regex', '(?s-u:.)', prio=1)], utf8=False, origin='fixed:holes'))
    # multi-byte characters of every length, negated class, dot
    out.append(Def([L('regex', '[^a]'), L('token', 'aé'), L('regex', 'a中+'), L('regex', 'a😀?b')], origin='fixed:multibyte'))
    # repetitions over classes that have characters under every UTF-8 lead byte but leave out a few non-ASCII characters (of
    # every encoded length): a loop over such a class may not be widened to "any non-ASCII byte"
    out.append(Def([L('regex', '[^"»]+'), L('token', '»'), L('token', '"')], origin='fixed:neg-nonascii'))
    out.append(Def([L('regex', '[^é中😀 ]+'), L('token', 'é'), L('token', '中'), L('token', '😀'), L('skip', ' ')], origin='fixed:neg-nonascii2'))
    out.append(Def([L('regex', '\\S+'), L('skip', '[ \\t]+')], origin='fixed:nonspace'))
    # look-around: end anchor, word boundary
    out.append(Def([L('regex', 'c$'), L('regex', 'c[a-b]+'), L('token', 'd')], origin='fixed:eoi'))
    out.append(Def([L('regex', 'c$'), L('token', 'd'), L('regex', 'ab$')], origin='fixed:eoi2'))
    # an end-anchored pattern and an unanchored one sharing the same text behind different prefixes: two states with the same byte
    # edges that differ only in the end-of-input edge (must not be merged); both ways round, and with a skip
    out.append(Def([L('regex', 'yab$'), L('regex', '[xy]abc')], origin='fixed:eoi-share'))
    out.append(Def([L('regex', 'xab$'), L('regex', '[xy]abc'), L('skip', ' ')], origin='fixed:eoi-share2'))
    out.append(Def([L('regex', '\\\\$'), L('regex', '[\\\\/]n'), L('regex', '[a-z]+')], origin='fixed:eoi-share3'))
    out.append(Def([L('regex', '[a-z]+(?-u:\\b)'), L('regex', '[a-z]+[0-9]', prio=20), L('skip', ' +')], origin='fixed:wordb'))
    # look-around in the middle of a pattern, negated word boundary, half boundaries, CRLF-aware line ends,
    # an assertion that can never hold (pruned as a dead end)
    out.append(Def([L('regex', '[a-z]+(?-u:\\b)-'), L('regex', '[a-z]+(?-u:\\B)[0-9]'), L('regex', '[a-z]+'), L('token', '-'),
                    L('regex', '[0-9]+')], origin='fixed:look-mid'))
    out.append(Def([L('regex', '[a-z]+(?mR:$)'), L('regex', '[a-z]+;'), L('regex', '\\r?\\n'), L('regex', '\\r', prio=1)], origin='fixed:look-crlf'))
    out.append(Def([L('regex', 'ab(?-u:\\b)c'), L('token', 'abd'), L('regex', 'a(?-u:\\b{end-half})'), L('regex', '[b-z]+(?m:$)\\n?')],
                   origin='fixed:look-unsat'))
    # a late-accept state (entered by the look-ahead byte) that still has outgoing edges into a longer match
    out.append(Def([L('regex', '[a-z]+(?-u:\\b)'), L('regex', '[a-z]+ !'), L('token', ' '), L('regex', '[0-9]+(?m:$)'), L('regex', '[0-9]+\\n\\n'),
                    L('regex', '\\n')], origin='fixed:look-late'))
    # one leaf with a plain alternative and an alternative ending in a look-ahead: the same leaf then owns an early-accept
    # state and a late-accept state with the same outgoing edges (they must not be identified with each other)
    out.append(Def([L('regex', '!|not(?-u:\\b)', prio=10), L('regex', '[a-z]+'), L('skip', ' +')], origin='fixed:look-alt'))
    out.append(Def([L('regex', 'or(?-u:\\b)|\\|\\|?', prio=3), L('regex', '[a-z]+'), L('skip', ' +'), L('regex', '//[^\\n]*(?:\\n|$)')],
                   origin='fixed:look-alt2'))
    out.append(Def([L('regex', 'or(?-u:\\b)|\\|\\|?', prio=3), L('regex', '[a-z]+'), L('skip', ' +')], origin='fixed:look-alt3'))
    # a late-accept state with a self edge (a negated word boundary after a repetition): the fast loop runs in a state
    # that also records a match one byte late
    out.append(Def([L('regex', '[0-9]+(?-u:\\B)'), L('regex', '[a-z]+'), L('skip', ' '), L('regex', '[a-z]+(?-u:\\B)[0-9]', prio=9)], origin='fixed:look-loop'))
    # a non-ASCII token whose default priority (2 x byte length) lies above an overlapping regex with an explicit priority
    # between 2 x chars and 2 x bytes: the winner must not depend on the utf8 mode
    out.append(Def([L('token', 'é'), L('regex', '[a-zà-ÿ]+', prio=3), L('token', '日本'), L('regex', '[一-龯]+', prio=7), L('skip', ' ')],
                   origin='fixed:modeprio'))
    # skips whose path from the root passes through an accepting state of another token (comment introducers), followed by
    # text that fails at once: the restart after a skip must forget the context accumulated on the way
    out.append(Def([L('token', '-'), L('regex', '[a-z]+'), L('skip', '[ \\n]+'), L('skip', '--[ -~]*'), L('token', '/'), L('skip', '//[ -~]*'),
                    L('token', '#!'), L('skip', '#')], origin='fixed:skip-through-token'))
    # a pattern that needs a terminator after a run over a class open at the top (or bottom): a truncated run is one error
    out.append(Def([L('regex', '(?-u)[\\x80-\\xff]*[\\x00-\\x7f]'), ], utf8=False, origin='fixed:bytes-varint'))
    out.append(Def([L('regex', '(?-u)[\\x00-\\x20]*[\\x41-\\x5a]'), L('regex', '(?-u)[^"]*"', prio=1)], utf8=False, origin='fixed:bytes-openrange'))
    # the same with callbacks on the token the skip passes through (a stale context would run the callback again), the skip
    # ending in a loop; once as a plain skip, once as a pattern whose callback returns Skip (C13: the two are interchangeable)
    out.append(Def([L('token', '\\', cb=2), L('skip', '\\\\\\n[ \\t]*'), L('regex', '[a-z]+', cb=11, value=True), L('skip', ' ')], origin='fixed:skip-extends-cb-token'))
    out.append(Def([L('token', '\\', cb=2), L('regex', '\\\\\\n[ \\t]*', cb=3), L('regex', '[a-z]+', cb=11, value=True), L('skip', ' ')], origin='fixed:skip-extends-cb-token2'))
    out.append(Def([L('token', '-', cb=9), L('skip', '--[a-z]*'), L('regex', '[0-9]+', cb=1), L('skip', ' +')], origin='fixed:skip-extends-cb-token3'))
    # long literals that share nothing with the other patterns (chains of single-byte, single-edge states longer than a chunk)
    out.append(Def([L('token', '<!DOCTYPE html>'), L('token', '<!--'), L('regex', '[a-z]+'), L('token', 'synchronized_block'), L('skip', ' ')], origin='fixed:long-literals'))
    # an ASCII word boundary after a fixed tail, nothing else alive in that state: its outgoing classes reach 0x00 and 0xff and
    # have holes at the word bytes (keyword-with-boundary, unit suffix, one-letter tag); with callbacks that skip and emit
    out.append(Def([L('regex', '(?-u)[0-9]+px\\b', cb=11, value=True), L('regex', '[0-9]+'), L('regex', '[a-z]+'), L('skip', ' ')], origin='fixed:look-tail'))
    out.append(Def([L('regex', '(?-u)#[a-z]\\b', cb=7), L('regex', '(?-u)[#a-z]', prio=1), L('regex', 'if(?-u:\\b)', prio=20), L('token', '=')], origin='fixed:look-tail2'))
    # a self loop over all 256 byte values (only possible in byte mode): a trailer that swallows the rest of the input, reached
    # as the first token, after other tokens and after a skip
    out.append(Def([L('regex', '#(?s-u:.)*', allow_greedy=True), L('regex', '[a-z]+'), L('skip', ' +')], utf8=False, origin='fixed:bytes-trailer'))
    out.append(Def([L('regex', '(?s-u)%.*', allow_greedy=True, prio=9), L('regex', '[0-9]+'), L('token', '='), L('skip', '[ \\t]')], utf8=False, origin='fixed:bytes-trailer2'))
    # byte classes with a one-byte hole, on a non-self edge of a state with few edges (rendered as a range test plus an excluded
    # byte): the hole next to the bottom, in the middle and next to the top of the range, str and byte mode
    out.append(Def([L('regex', "'[[:ascii:]&&[^']]'"), L('regex', '[a-z]+')], origin='fixed:hole-ascii'))
    out.append(Def([L('regex', 'x[\\x00-\\x7f&&[^\\x01]]y'), L('regex', 'q[\\x00-\\x7f&&[^\\x7e]]'), L('regex', '<[\\x01-\\x7f&&[^\\x02]]>')], origin='fixed:hole-edges'))
    out.append(Def([L('regex', '(?-u)x[^a]y'), L('regex', '(?-u)q[^\\x01]r'), L('regex', '(?-u)<[^\\x80]>'), L('regex', '(?-u)=[^\\xfe]')], utf8=False, origin='fixed:hole-bytes'))
    # the same text matched by two patterns, one of them only in some contexts, at different priorities
    out.append(Def([L('regex', '[a-z]+'), L('regex', 'end$', prio=100), L('token', 'a', prio=3), L('regex', 'a(?-u:\\b)', prio=10), L('skip', ' ')],
                   origin='fixed:look-prio'))
    out.append(Def([L('regex', '[a-z]+', prio=50), L('regex', '[a-z]+$', prio=1), L('regex', '[0-9]+(?m:$)', prio=9), L('regex', '[0-9]+', prio=2),
                    L('regex', '\\n')], origin='fixed:look-prio2'))
    out.append(Def([L('regex', '#(?-u:\\b{start})[a-z]+'), L('regex', '[a-z]+(?-u:\\b{end})'), L('regex', '[a-z]+[0-9]+'), L('token', '#'),
                    L('skip', ' ')], origin='fixed:look-startend'))
    # a pattern ending in a look-ahead, and a longer one that reads on through the looked-at byte and completes only at the end of
    # input: the state after that byte holds the late accept of the first pattern, has no byte edge and one end-of-input edge
    out.append(Def([L('regex', '(?-u)end\\b'), L('regex', '(?-u)end;$'), L('token', ';'), L('skip', ' ')], origin='fixed:look-through-eoi'))
    out.append(Def([L('regex', 'a'), L('regex', 'a$', prio=10), L('regex', 'ab$'), L('token', 'b', cb=11, value=True)], origin='fixed:look-through-eoi2'))
    out.append(Def([L('regex', '[0-9]+(?-u:\\b)', cb=11, value=True), L('regex', '[0-9]+\\.(?m:$)'), L('token', '.'), L('skip', '[ \\n]')], origin='fixed:look-through-eoi3'))
    # string / comment style tokens, lazy and greedy
    out.append(Def([L('regex', '"([^"\\\\]|\\\\.)*"'), L('regex', '/\\*([^*]|\\*[^/])*\\*/'), L('regex', '//[^\\n]*', allow_greedy=True),
                    L('skip', '[ \\n]+'), L('regex', '[a-z]+')], origin='fixed:strings'))
    # overlapping priorities
    out.append(Def([L('regex', '[a-z]+', prio=1), L('regex', 'a[a-z]*', prio=2), L('regex', 'ab[a-z]*', prio=3),
                    L('token', 'abc', prio=4), L('regex', 'abc+', prio=5)], origin='fixed:prio'))
    # three or more patterns matching the same text, in every order of their priorities (the winner of a DFA state is chosen
    # in one pass over the matching leaves in leaf order)
    import itertools as _it
    for k, perm in enumerate(_it.permutations([L('token', 'abc'), L('regex', '[a-z]+'), L('regex', '[a-c][a-z]+')])):
        out.append(Def([L(l.kind, l.pat) for l in perm] + [L('skip', ' ')], origin='fixed:prio-perm%d' % k))
    out.append(Def([L('regex', 'ab[a-z]*', prio=3), L('regex', '[a-z]+', prio=1), L('regex', 'abc+', prio=5), L('regex', 'a[a-z]*', prio=2),
                    L('token', 'abc', prio=4)], origin='fixed:prio-zigzag'))
    # many leaves (more than 64), all overlapping with one identifier pattern: per-state match lists and leaf tables beyond the
    # sizes small fixed buffers or bit sets would hold
    out.append(Def([L('token', 'kw%02d' % j) for j in range(66)] + [L('regex', '[a-z]+[0-9]*'), L('skip', ' '),
                    # ... with tokens that nothing continues (decided as soon as they are read) among the leaves past 64
                    L('token', '('), L('token', '=='), L('token', ';'), L('token', '=')], origin='fixed:many-leaves'))
    # an accepting loop state followed by an optional suffix that starts with two or more mandatory bytes (exponent, range
    # operator): a place where code might look ahead before committing
    out.append(Def([L('regex', '[0-9]+(e-[0-9]+)?'), L('regex', '[a-z]+(\\.\\.=[a-z]+)?'), L('token', '.'), L('skip', ' ')], origin='fixed:opt-suffix'))
    # the Unicode mode of a pattern comes from the kind of its literal, not from the mode of the lexer: a str-literal skip / regex in
    # a byte-mode lexer, a byte-string skip / regex in a str-mode lexer, with Unicode-sensitive classes
    out.append(Def([L('skip', '\\s+'), L('regex', '[a-z]+'), L('regex', '\\d+')], utf8=False, origin='fixed:literal-kind-vs-mode'))
    out.append(Def([L('skip', b'\\s+', is_bytes=True), L('regex', '[a-z]+'), L('regex', b'\\d+', is_bytes=True), L('regex', '\\p{Greek}+')], origin='fixed:literal-kind-vs-mode2'))
    # byte mode with arbitrary bytes
    out.append(Def([L('token', bytes([0xff, 0x00, 0x61]), is_bytes=True), L('regex', '(?-u)[\\x80-\\xbf]+'),
                    L('regex', 'é+'), L('regex', '[a-z]+')], utf8=False, origin='fixed:bytes'))
    # callbacks of every kind
    out.append(Def([L('regex', 'a+', cb=1), L('regex', 'b+', cb=4), L('regex', 'c+', cb=5), L('regex', 'd+', cb=8),
                    L('regex', 'e+', cb=12, value=True), L('regex', 'f+', cb=15, value=True), L('skip', ' +', cb=18),
                    L('regex', 'g+', cb=20), L('regex', 'h+', cb=9), L('regex', 'i+', cb=13, value=True)],
                   errcb=True, origin='fixed:callbacks'))
    for k, lf in enumerate(out[-1].leaves):
        lf.cb_form = k % 4
    # an explicit Err(e) with e equal to the error type's default, with an error callback configured (the error callback makes the
    # *default* errors; a value a callback returned is passed on as it is) and without
    out.append(Def([L('regex', 'a+', cb=23), L('regex', 'b+', cb=24, value=True), L('regex', 'c+', cb=10), L('regex', '[0-9]+'), L('skip', ' +')], errcb=True, origin='fixed:explicit-default-err'))
    out.append(Def([L('regex', 'a+', cb=23), L('regex', 'b+', cb=24, value=True), L('regex', '[0-9]+'), L('skip', ' +')], errcb=False, origin='fixed:explicit-default-err2'))
    # callbacks that reject (None / false) a match the automaton had read past before falling back to it, with an error callback
    # configured: the error callback has to see the span of the rejected match
    out.append(Def([L('regex', '[0-9]+', cb=25), L('regex', '[0-9]+\\.[0-9]+', cb=1), L('regex', '[a-z]+', cb=26), L('regex', '[a-z]+-=', cb=9), L('regex', '[A-Z]+y?', cb=12, value=True),
                    L('skip', ' +')], errcb=True, origin='fixed:errcb-fallback'))
    # byte-mode lexers whose patterns are written for text: loops over classes that contain every non-ASCII character (round 28:
    # they never match bytes that are not well-formed UTF-8, and a character cut short by the end of the input ends the token)
    out.append(Def([L('regex', '[^;]+'), L('token', ';')], utf8=False, origin='fixed:bytes-text-loops'))
    out.append(Def([L('regex', '"[^"]*"'), L('regex', '//[^\\n]*', allow_greedy=True), L('regex', '[a-z]+'), L('skip', '[ \\n]')], utf8=False, origin='fixed:bytes-text-loops2'))
    out.append(Def([L('regex', '.+', allow_greedy=True), L('token', '\n')], utf8=False, origin='fixed:bytes-text-loops3'))
    # a callback that bumps over the next character and then rejects the match, next to a pattern that reads on into a character
    # sharing its lead byte with the one in the input (round 29: the span after the rejection must still be on char boundaries)
    out.append(Def([L('regex', '[a-z]+', cb=29), L('regex', '[a-z]+·[a-z]+'), L('regex', '[0-9]+'), L('skip', ' ')], origin='fixed:bump-then-reject'))
    # a skip with a callback listed before a plain skip (round 29: the plain one must not run the other's callback)
    out.append(Def([L('skip', 'w+', cb=17), L('skip', ' +'), L('regex', '[a-v]+'), L('token', '='), L('skip', '#+', cb=3), L('skip', '_')], origin='fixed:skip-cb-first'))
    # a plain skip that is a proper prefix of a longer pattern, the longer one cut short by the end of the input (round 28)
    out.append(Def([L('skip', '[ \\t]+'), L('regex', '[a-z]+'), L('regex', '[ \\t]*\\r\\n'), L('regex', ' *;;')], origin='fixed:skip-prefix-eoi'))
    # the same pattern text with and without ignore(case) in one definition (round 28: a cache of parsed patterns keyed without the flag)
    out.append(Def([L('regex', '[a-z]+', prio=5), L('regex', '[a-z]+', prio=1, ignore_case=True), L('regex', 'end;'), L('token', 'end;', ignore_case=True, prio=9), L('skip', ' +')],
                   origin='fixed:same-text-case'))
    # inline closures that begin with a call handing over the lexer and go on: `|lex| f(lex) == false`, `|lex| f(lex).filter(..)`
    dd = Def([L('regex', 'a+', cb=27), L('regex', 'b+', cb=28), L('regex', 'c+', cb=1), L('regex', '[0-9]+'), L('skip', ' +')], errcb=True, origin='fixed:closure-forward-tail')
    dd.leaves[0].cb_form = 7
    dd.leaves[1].cb_form = 7
    dd.leaves[2].cb_form = 3
    out.append(dd)
    # inline closures that leave early (`return`, `?`): D17
    dd = Def([L('regex', 'a+', cb=11, value=True), L('regex', 'b+', cb=1), L('regex', 'c+', cb=9), L('regex', 'd+', cb=12, value=True), L('regex', 'e+', cb=3), L('skip', ' +')],
             origin='fixed:closure-early-exit')
    for lf in dd.leaves:
        lf.cb_form = 6
    out.append(dd)
    # inline closures whose body begins with a group: `(a + 1) * 2`, `(!x) == y`, a block
    dd = Def([L('regex', 'a+', cb=11, value=True), L('regex', 'b+', cb=1), L('regex', 'c+', cb=21, value=True), L('regex', 'd+', cb=9), L('regex', 'e+', cb=12, value=True), L('skip', ' +')],
             origin='fixed:closure-bodies')
    for lf in dd.leaves:
        lf.cb_form = 4
    out.append(dd)
    # an error type that has an inherent `default()` next to its `Default` impl: the default error is the trait's value
    for k, form in enumerate(['error = zoo_rt::ZErr2', 'error(zoo_rt::ZErr2)']):
        dd = Def([L('regex', 'a+', cb=1), L('regex', 'b+', cb=9), L('regex', '[0-9]+'), L('regex', 'c+', cb=12, value=True), L('skip', ' +')], origin='fixed:errty-inherent-default-%d' % k)
        dd.errty_plain = form
        dd.zerr = False
        out.append(dd)
    # the library's own `logos::skip` as a callback, on a pattern that other patterns begin with (a skipped match must leave
    # exactly what a skip pattern would: the next token may start with the very text that was just skipped)
    for k, leaves in enumerate([[L('token', '-', cb=3), L('token', '->'), L('token', '>'), L('regex', '[a-z]+')],
                                [L('regex', ' +', cb=3), L('token', ' x'), L('regex', '[a-z]+')],
                                [L('regex', 'ab', cb=3), L('token', 'abab!'), L('regex', '[a-c]'), L('token', '!')],
                                [L('token', '/', cb=3), L('regex', '//[a-z]*'), L('regex', '[a-z]+'), L('skip', ' ')]]):
        dd = Def(leaves, origin='fixed:lib-skip-%d' % k)
        dd.leaves[0].cb_form = 5
        out.append(dd)
    # the error type written as a tuple, an array, a generic type, a qualified path (the error callback supplies the default errors
    # whatever the type looks like); callbacks that return bool / Option produce default errors too
    for k, ety in enumerate([('(u8, usize)', '(7u8, lex.span().len())'), ('[usize; 2]', '[7usize, lex.span().len()]'), ('Option<usize>', 'Some(lex.span().len())'),
                             ('zoo_rt::ZErr', 'zoo_rt::ZErr::Cb(lex.span().len())'), ('(usize,)', '(lex.span().len() + 100,)')]):
        dd = Def([L('regex', 'a+', cb=1), L('regex', 'b+', cb=9), L('regex', 'c+', cb=12, value=True), L('regex', '[0-9]+'), L('skip', ' +')], errcb=True, origin='fixed:errty-%d' % k)
        dd.errty = ety
        dd.zerr = False
        out.append(dd)
    out.append(Def([L('regex', '[a-c]+', cb=7), L('regex', '[d-f]+', cb=14, value=True), L('skip', '[ ,]+', cb=22),
                    L('regex', '[0-9]+', cb=21, value=True), L('regex', 'x', cb=3), L('regex', 'y+', cb=6),
                    L('regex', 'z+', cb=10), L('regex', 'w', cb=2), L('regex', 'q+', cb=11, value=True)],
                   origin='fixed:callbacks2'))
    for k, lf in enumerate(out[-1].leaves):
        lf.cb_form = (k + 2) % 4
    # bumping callbacks on a byte source (a bump may land exactly on the end of the input)
    out.append(Def([L('regex', 'a+', cb=20), L('regex', 'b+', cb=21, value=True), L('skip', '#', cb=22), L('regex', '(?-u)[\\x80-\\xff]+'), L('token', 'c')],
                   utf8=False, origin='fixed:callbacks-bytes'))
    # case-insensitive
    out.append(Def([L('token', 'élan', ignore_case=True), L('regex', '[a-z]+k', ignore_case=True), L('token', 'ǆ', ignore_case=True),
                    L('skip', ' ')], origin='fixed:icase'))
    # alternations whose branches differ in the first byte and continue identically: state de-duplication merges the
    # edges (ByteClass::merge), with extreme bytes 0x00 / 0xff / 0x7f / 0x80 in the merged classes
    out.append(Def([L('regex', '(?-u)\\x1b[\\x40-\\x7e]|\\xff[\\x40-\\x7e]'), L('regex', '(?-u)(?:\\x00a|\\xffa|ma)+z'),
                    L('regex', '(?-u)(?:\\x7fq|\\x80q|\\xfeq)[0-9]'), L('regex', '[a-l]+')], utf8=False, origin='fixed:merge-bytes'))
    out.append(Def([L('regex', '(?:é|ü|a)x+'), L('regex', '(?:if|of|af)[0-9]'), L('regex', '(?:中|丿|b)(?:y|z)'), L('skip', ' ')], origin='fixed:merge-str'))
    # subpatterns with Unicode-sensitive constructs (must behave alike in str and byte mode)
    out.append(Def([L('regex', '[a-z]+'), L('regex', '"(?&inner)*"'), L('regex', '#(?&any)'), L('skip', '(?&ws)+')],
                   subpatterns=[('inner', '[^"]'), ('any', '.'), ('ws', '\\s')], origin='fixed:subpatterns'))
    out.append(Def([L('regex', '(?&letter)+'), L('token', '=')], subpatterns=[('letter', '[a-zα-ωé]')], origin='fixed:subpatterns2'))
    # a subpattern used from a pattern of the other literal kind (str subpattern in a byte-string regex and the other way round, a
    # byte-string subpattern referring to a str one): the subpattern keeps its own Unicode mode whatever the lexer's mode is
    out.append(Def([L('regex', b'(?&word)', is_bytes=True), L('regex', '[0-9]+(?&bl)'), L('regex', b'<(?&tag)>', is_bytes=True), L('skip', ' +')],
                   subpatterns=[('word', '\\w+'), ('bl', b'[a-z]\\s'), ('tag', b'(?&word)\\d')], origin='fixed:subpatterns-cross'))
    # stack probes: single-character skips, long tokens
    out.append(Def([L('skip', 'x'), L('regex', 'a+'), L('token', 'b'), L('regex', 'c[a-z]*d'), L('regex', 'y', cb=3), L('skip', 'w+', cb=17)], origin='fixed:stack'))
    # two-byte classes: pairs of isolated bytes at every power-of-two distance, the lower byte with and without that bit set (a pair
    # that differs in one bit can be tested with a mask; `:`/`Z` are 0x20 apart but differ in more than bit 5).  One edge per state
    # (if-chain rendering), two pairs per state, and the same pairs in a self loop (fast-loop rendering).
    pairs = []
    for k in range(7):
        d = 1 << k
        lo_clear = next(b for b in range(0x30, 0x7a - d) if not b & d and chr(b).isalnum() and chr(b + d).isalnum())
        lo_set = next((b for b in range(0x21, 0x7e - d) if b & d and (b + d) < 0x7f and chr(b) not in '\\[]^-' and chr(b + d) not in '\\[]^-'), None)
        pairs.append((lo_clear, lo_clear + d))
        if lo_set is not None:
            pairs.append((lo_set, lo_set + d))
    pairs += [(0x3a, 0x5a), (0x3f, 0x5f), (0x20, 0x40), (0x2e, 0x4e)]     # ':'/'Z', '?'/'_', ' '/'@', '.'/'N'
    def cls(p):
        return '[' + ''.join('\\x%02x' % b for b in p) + ']'
    lead = 'abcdefghijklmnopqrstuvwxyz'
    for part in range(0, len(pairs), 9):
        chunk = pairs[part:part + 9]
        out.append(Def([L('regex', '%s%s%s' % (lead[i], lead[i], cls(p))) for i, p in enumerate(chunk)] +
                       [L('regex', '[0-9]+' + cls(chunk[0])), L('regex', '[0-9]+', prio=1), L('skip', '~+')], origin='fixed:pair-classes%d' % (part // 9)))
        out.append(Def([L('regex', '%s%s+;' % (lead[i], cls(p))) for i, p in enumerate(chunk[:5])], origin='fixed:pair-loops%d' % (part // 9)))
    out.append(Def([L('regex', '(?-u)x[\\x41\\xc1]'), L('regex', '(?-u)y[\\x7f\\xff]'), L('regex', '(?-u)z[\\x00\\x80]+!'), L('regex', '(?-u)w[\\x5a\\xda]')], utf8=False, origin='fixed:pair-classes-bytes'))
    # round 27: byte classes that end one short of 0xff / begin one after 0x00 (a complement computed with an off-by-one at the
    # limits drops the extreme byte), as self loops with the extreme byte a token of its own
    out.append(Def([L('regex', '(?-u)[\\xa1-\\xfe]+'), L('regex', '(?-u)[\\x01-\\x20]+'), L('token', bytes([0xff]), is_bytes=True),
                    L('token', bytes([0x00]), is_bytes=True), L('regex', '[a-z]+')], utf8=False, origin='fixed:edge-adjacent'))
    out.append(Def([L('regex', '(?-u)[^\\xff]+'), L('token', bytes([0xff]), is_bytes=True)], utf8=False, origin='fixed:edge-adjacent2'))
    out.append(Def([L('regex', '(?-u)[^\\x00]+'), L('token', bytes([0x00]), is_bytes=True)], utf8=False, origin='fixed:edge-adjacent3'))
    # round 27: counted repetitions over classes holding multi-byte characters (the count is in characters, not bytes)
    out.append(Def([L('regex', '[^ ]{3,}'), L('skip', ' +')], origin='fixed:counted-open'))
    out.append(Def([L('regex', '[^a-z ]{2}x'), L('regex', '(?:[^ ,]+,){2}'), L('regex', '[a-z]+'), L('skip', ' ')], origin='fixed:counted-open2'))
    # round 27: a look-ahead in the middle whose late accept has only an end-of-input edge to an accept of the same leaf
    out.append(Def([L('regex', 'a(?-u:\\b)( $)?'), L('regex', '[b-z]+'), L('token', ' ', prio=1)], origin='fixed:look-opt-eoi'))
    out.append(Def([L('regex', 'x|y$'), L('regex', 'yz+'), L('skip', ' ')], origin='fixed:look-opt-eoi2'))
    # nested repetitions (exponential for backtrackers)
    out.append(Def([L('regex', '(a+)+b'), L('regex', '(a|aa)+c'), L('regex', '(a*)*d')], origin='fixed:nested'))
    FIXED.extend(out)
    return FIXED


def corpus(seed, n_gen, opts=None):
    R = random.Random(seed)
    out = list(fixed_corpus())
    for i in range(n_gen):
        d = gen_def(R, opts)
        if R.random() < 0.15:
            d = with_look(R, d)
        out.append(d)
    return out
