"""Typed regex AST used by the corpus generator: render to regex-syntax source, sample matching strings.

Untrusted test-generation code (no verdict depends on its correctness: every generated definition is
run through the real derive, the Lean spec and the regex crate)."""
import random

META = set('\\.+*?()|[]{}^$#&-~')


def esc_lit(s):
    out = []
    for ch in s:
        if ch in META or ch == ' ':
            if ch == ' ':
                out.append(' ')
            else:
                out.append('\\' + ch)
        else:
            out.append(ch)
    return ''.join(out)


class Node:
    def render(self):
        raise NotImplementedError

    def sample(self, R):
        raise NotImplementedError

    def chars(self):
        return set()


class Lit(Node):
    def __init__(self, s):
        self.s = s

    def render(self):
        return esc_lit(self.s)

    def sample(self, R):
        return self.s

    def chars(self):
        return set(self.s)


class Raw(Node):
    """verbatim regex text with a list of sample strings"""

    def __init__(self, text, samples, alpha=''):
        self.text = text
        self.samples = samples
        self.alpha = alpha

    def render(self):
        return self.text

    def sample(self, R):
        return R.choice(self.samples)

    def chars(self):
        return set(self.alpha) | set(''.join(self.samples))


class Cls(Node):
    def __init__(self, items, neg=False):
        self.items = items  # list of (lo, hi) chars
        self.neg = neg

    def render(self):
        body = ''
        for lo, hi in self.items:
            def e(c):
                return '\\' + c if c in '\\]^-[' else c
            body += e(lo) if lo == hi else e(lo) + '-' + e(hi)
        return '[' + ('^' if self.neg else '') + body + ']'

    def sample(self, R):
        if not self.neg:
            lo, hi = R.choice(self.items)
            return chr(R.randint(ord(lo), ord(hi)))
        for _ in range(50):
            c = R.choice('abcdxyz01 é中😀Z_')
            if not any(lo <= c <= hi for lo, hi in self.items):
                return c
        return 'q'

    def chars(self):
        s = set()
        for lo, hi in self.items:
            s.add(lo)
            s.add(hi)
        return s


class Dot(Node):
    def render(self):
        return '.'

    def sample(self, R):
        return R.choice('abcd0 é中')

    def chars(self):
        return set('a é')


class Cat(Node):
    def __init__(self, parts):
        self.parts = parts

    def render(self):
        out = ''
        for p in self.parts:
            if isinstance(p, Alt):
                out += '(?:' + p.render() + ')'
            else:
                out += p.render()
        return out

    def sample(self, R):
        return ''.join(p.sample(R) for p in self.parts)

    def chars(self):
        s = set()
        for p in self.parts:
            s |= p.chars()
        return s


class Alt(Node):
    def __init__(self, alts):
        self.alts = alts

    def render(self):
        return '|'.join(a.render() for a in self.alts)

    def sample(self, R):
        return R.choice(self.alts).sample(R)

    def chars(self):
        s = set()
        for p in self.alts:
            s |= p.chars()
        return s


class Group(Node):
    def __init__(self, sub, flags=''):
        self.sub = sub
        self.flags = flags

    def render(self):
        return '(?' + self.flags + ':' + self.sub.render() + ')'

    def sample(self, R):
        return self.sub.sample(R)

    def chars(self):
        return self.sub.chars()


class Rep(Node):
    def __init__(self, sub, mn, mx, lazy=False):
        self.sub, self.mn, self.mx, self.lazy = sub, mn, mx, lazy

    def render(self):
        s = self.sub.render()
        single = isinstance(self.sub, (Cls, Dot, Group)) or (isinstance(self.sub, Lit) and len(self.sub.s) == 1) \
            or (isinstance(self.sub, Raw) and self.sub.text.startswith('\\') and len(self.sub.text) <= 3)
        if not single:
            s = '(?:' + s + ')'
        mn, mx = self.mn, self.mx
        if (mn, mx) == (0, None):
            q = '*'
        elif (mn, mx) == (1, None):
            q = '+'
        elif (mn, mx) == (0, 1):
            q = '?'
        elif mx is None:
            q = '{%d,}' % mn
        elif mn == mx:
            q = '{%d}' % mn
        else:
            q = '{%d,%d}' % (mn, mx)
        return s + q + ('?' if self.lazy else '')

    def sample(self, R):
        mx = self.mx if self.mx is not None else self.mn + R.choice([0, 1, 2, 3, 9])
        n = R.randint(self.mn, mx)
        return ''.join(self.sub.sample(R) for _ in range(n))

    def chars(self):
        return self.sub.chars()


ASCII_L = 'abcd'


def gen_atom(R, d, opts):
    r = R.random()
    if r < 0.30:
        return Lit(R.choice(ASCII_L))
    if r < 0.40:
        return Lit(R.choice(['ab', 'bc', 'abc', 'ca', 'é', 'dé', '中', 'a中', '😀', 'ß', '0', '01', ' ', 'x-y']))
    if r < 0.47:
        return Lit(R.choice(['+', '.', '*', '(', '[', '$', '|', '\\', '{', '?', '^', '#', '&', '-', '~']))
    if r < 0.62:
        return R.choice([
            Cls([('a', 'b')]), Cls([('a', 'c')]), Cls([('a', 'a')], True), Cls([('a', 'b')], True),
            Cls([('b', 'd')]), Cls([('a', 'a'), ('c', 'c')]), Cls([('0', '9')]), Cls([('a', 'd'), ('0', '1')]),
            Cls([('a', 'a'), ('c', 'c'), ('e', 'e'), ('g', 'g')]), Cls([('a', 'z'), ('A', 'Z'), ('_', '_')]),
            Cls([('b', 'b'), ('d', 'f'), ('h', 'h'), ('j', 'm'), ('o', 'o')]),
        ])
    if r < 0.68:
        return R.choice([Cls([('é', 'ü')]), Cls([('é', 'é')], True), Cls([('中', '丿')]), Cls([('α', 'ω')]),
                         Cls([('a', 'z'), ('é', 'é')]), Cls([('\u0080', '\u07ff')])])
    if r < 0.72:
        return Dot()
    if r < 0.75 and opts.get('perl', True):
        return R.choice([Raw('\\d', ['0', '7', '٣'], '09'), Raw('\\s', [' ', '\t'], ' '),
                         Raw('(?-u:\\w)', ['a', 'Z', '_', '0'], 'az_')])
    if r < 0.78:
        return R.choice([Group(Lit('ab'), 'i'), Group(Lit('é'), 'i'), Group(Cls([('a', 'c')]), 'i'),
                         Group(Lit('ǆ'), 'i'), Group(Lit('k'), 'i'), Group(Lit('ß'), 'i')])
    if r < 0.83:
        # branches that differ in their first character and continue identically (edge merging on de-duplication)
        heads = R.sample(['a', 'b', 'd', 'é', 'ü', '0', 'z', '中', '\x7f'], R.choice([2, 3]))
        tail = R.choice([Lit('x'), Cls([('0', '9')]), Cat([Lit('q'), Rep(Lit('r'), 0, None)]), Cls([('a', 'c')])])
        return Group(Alt([Cat([Lit(h), tail]) for h in heads]))
    if d > 0:
        return Group(gen_regex(R, d - 1, opts))
    return Lit(R.choice(ASCII_L))


def gen_rep(R, d, opts):
    a = gen_atom(R, d, opts)
    r = R.random()
    if r < 0.5:
        return a
    mn, mx = R.choice([(0, None), (1, None), (0, 1), (2, 2), (1, 2), (2, None), (0, 2), (1, 3), (3, 3)])
    if isinstance(a, Group) and (mn >= 2 or (mx or 0) >= 2):
        mn, mx = R.choice([(0, None), (1, None), (0, 1)])   # counted repetition of a compound multiplies the DFA
    lazy = R.random() < 0.25
    if isinstance(a, Dot) and mx is None and not lazy and not opts.get('greedy_dot', False):
        lazy = True
    return Rep(a, mn, mx, lazy)


def gen_cat(R, d, opts):
    return Cat([gen_rep(R, d, opts) for _ in range(R.choice([1, 1, 2, 2, 3]))])


def gen_regex(R, d, opts=None):
    opts = opts or {}
    n = R.choice([1, 1, 1, 2, 3])
    if n == 1:
        return gen_cat(R, d, opts)
    return Alt([gen_cat(R, d, opts) for _ in range(n)])
