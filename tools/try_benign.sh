#!/bin/sh
# usage: tools/try_benign.sh <patch.diff> ...  -- apply a behaviour-preserving change to /repo, run every quick check, undo.
# Every check is expected to stay quiet; a VIOLATION here is a false alarm of the machinery (or the change is not benign).
cd /verif
for PATCH in "$@"; do
  n=$(basename $(dirname $PATCH))
  git -C /repo apply "$PATCH" || { echo "$n: patch does not apply"; continue; }
  for P in C01 C02 C03 C04 C05 C06 C07 C08 C09 C10 C11 C12 C13 C14 C15 C16 C17 C18 C19 C20; do
    ./check $P > /tmp/benign_${n}_$P.out 2>&1
    rc=$?
    v=$(grep -c '^VIOLATION' /tmp/benign_${n}_$P.out)
    [ "$rc" != "0" -o "$v" != "0" ] && echo "$n $P exit=$rc violations=$v with-input=$(grep '^VIOLATION' /tmp/benign_${n}_$P.out | grep -vc no-failing-input-found)"
  done
  git -C /repo checkout -- .
  git -C /verif checkout -- evidence 2>/dev/null
  echo "$n done"
done
git -C /repo status --short | head -3
