#!/bin/sh
# usage: [SB=<name>] tools/try_seeded_sb.sh <patch.diff> <PROP> [<PROP> ...]   -- like try_seeded.sh, but in a private copy of /repo and /verif
# (tools/sandbox.sh), so that the real /repo stays untouched (a long run may be using it); SB names the sandbox (default: try), so that
# several changes can be tried at the same time
SB="${SB:-try}"
PATCH="$(readlink -f "$1")"; shift
cp "$PATCH" /var/tmp/sb-$SB.diff
cd "$(dirname "$0")/.."
tools/sandbox.sh $SB sh -c '
  SB="$1"; shift
  git -C /repo apply /var/tmp/sb-$SB.diff || { echo "patch does not apply"; exit 2; }
  for P in "$@"; do
    ./check "$P" > /var/tmp/sb-$SB-$P.out 2>&1; rc=$?
    echo "== $P exit=$rc  $(grep -c "^VIOLATION" /var/tmp/sb-$SB-$P.out) violation lines, $(grep "^VIOLATION" /var/tmp/sb-$SB-$P.out | grep -vc no-failing-input-found) with input; first: $(grep "^VIOLATION" /var/tmp/sb-$SB-$P.out | head -1)"
  done' sh "$SB" "$@"
