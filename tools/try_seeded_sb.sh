#!/bin/sh
# usage: tools/try_seeded_sb.sh <patch.diff> <PROP> [<PROP> ...]   -- like try_seeded.sh, but in a private copy of /repo and /verif
# (tools/sandbox.sh), so that the real /repo stays untouched (a long run may be using it)
PATCH="$(readlink -f "$1")"; shift
cp "$PATCH" /var/tmp/sb-try.diff
cd "$(dirname "$0")/.."
tools/sandbox.sh try sh -c '
  git -C /repo apply /var/tmp/sb-try.diff || { echo "patch does not apply"; exit 2; }
  for P in "$@"; do
    ./check "$P" > /var/tmp/sb-try-$P.out 2>&1; rc=$?
    echo "== $P exit=$rc  $(grep -c "^VIOLATION" /var/tmp/sb-try-$P.out) violation lines; first: $(grep "^VIOLATION" /var/tmp/sb-try-$P.out | head -1)"
  done' sh "$@"
