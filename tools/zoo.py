"""Generate, build and run the zoo: crates of derived lexers compiled against /repo's working tree."""
import os, subprocess, sys, hashlib, shutil, time
from concurrent.futures import ThreadPoolExecutor

VERIF = os.path.dirname(os.path.dirname(os.path.abspath(__file__)))
HARNESS = os.path.join(VERIF, 'harness')
WORK = os.path.join(VERIF, 'work')
ENV = dict(os.environ, CARGO_NET_OFFLINE='true')

CONFIGS = {
    'tail': [],
    'tail_safe': ['safe'],
    'sm': ['sm'],
    'sm_safe': ['sm', 'safe'],
    'trace': ['trace'],
    'sm_trace': ['sm', 'trace'],
}

CB_SRC = {
    1: 'fn cb1<\'s>(lex: &mut L<\'s>) -> bool { zoo_rt::called(); sel(lex) != 0 }',
    2: 'fn cb2<\'s>(_lex: &mut L<\'s>) { zoo_rt::called();}',
    3: 'fn cb3<\'s>(_lex: &mut L<\'s>) -> logos::Skip { zoo_rt::called(); logos::Skip }',
    4: 'fn cb4<\'s>(lex: &mut L<\'s>) -> Result<logos::Skip, ZErr> { zoo_rt::called(); if sel(lex) == 0 { Err(ZErr::Custom(1)) } else { Ok(logos::Skip) } }',
    5: 'fn cb5<\'s>(_lex: &mut L<\'s>) -> TY { zoo_rt::called(); T::Alt }',
    6: 'fn cb6<\'s>(lex: &mut L<\'s>) -> Result<TY, ZErr> { zoo_rt::called(); if sel(lex) == 0 { Err(ZErr::Custom(2)) } else { Ok(T::Alt) } }',
    7: 'fn cb7<\'s>(lex: &mut L<\'s>) -> logos::Filter<TY> { zoo_rt::called(); if sel(lex) == 0 { logos::Filter::Skip } else { logos::Filter::Emit(T::Alt) } }',
    8: 'fn cb8<\'s>(lex: &mut L<\'s>) -> logos::FilterResult<TY, ZErr> { zoo_rt::called(); match sel(lex) { 0 => logos::FilterResult::Skip, 1 => logos::FilterResult::Error(ZErr::Custom(3)), _ => logos::FilterResult::Emit(T::Alt) } }',
    9: 'fn cb9<\'s>(lex: &mut L<\'s>) -> Option<()> { zoo_rt::called(); if sel(lex) == 0 { None } else { Some(()) } }',
    10: 'fn cb10<\'s>(lex: &mut L<\'s>) -> Result<(), ZErr> { zoo_rt::called(); if sel(lex) == 0 { Err(ZErr::Custom(4)) } else { Ok(()) } }',
    11: 'fn cb11<\'s>(lex: &mut L<\'s>) -> usize { zoo_rt::called(); lex.slice().len() }',
    12: 'fn cb12<\'s>(lex: &mut L<\'s>) -> Option<usize> { zoo_rt::called(); if sel(lex) == 0 { None } else { Some(lex.slice().len()) } }',
    13: 'fn cb13<\'s>(lex: &mut L<\'s>) -> Result<usize, ZErr> { zoo_rt::called(); if sel(lex) == 0 { Err(ZErr::Custom(5)) } else { Ok(lex.slice().len()) } }',
    14: 'fn cb14<\'s>(lex: &mut L<\'s>) -> logos::Filter<usize> { zoo_rt::called(); if sel(lex) == 0 { logos::Filter::Skip } else { logos::Filter::Emit(lex.slice().len()) } }',
    15: 'fn cb15<\'s>(lex: &mut L<\'s>) -> logos::FilterResult<usize, ZErr> { zoo_rt::called(); match sel(lex) { 0 => logos::FilterResult::Skip, 1 => logos::FilterResult::Error(ZErr::Custom(6)), _ => logos::FilterResult::Emit(lex.slice().len()) } }',
    16: 'fn cb16<\'s>(_lex: &mut L<\'s>) { zoo_rt::called();}',
    17: 'fn cb17<\'s>(_lex: &mut L<\'s>) -> logos::Skip { zoo_rt::called(); logos::Skip }',
    18: 'fn cb18<\'s>(lex: &mut L<\'s>) -> Result<(), ZErr> { zoo_rt::called(); if sel(lex) == 0 { Err(ZErr::Custom(7)) } else { Ok(()) } }',
    19: 'fn cb19<\'s>(lex: &mut L<\'s>) -> Result<logos::Skip, ZErr> { zoo_rt::called(); if sel(lex) == 0 { Err(ZErr::Custom(8)) } else { Ok(logos::Skip) } }',
    20: 'fn cb20<\'s>(lex: &mut L<\'s>) { zoo_rt::called(); bump1(lex) }',
    21: 'fn cb21<\'s>(lex: &mut L<\'s>) -> usize { zoo_rt::called(); bump1(lex); lex.slice().len() }',
    22: 'fn cb22<\'s>(lex: &mut L<\'s>) { zoo_rt::called(); bump1(lex) }',
    25: 'fn cb25<\'s>(_lex: &mut L<\'s>) -> Option<()> { zoo_rt::called(); None }',
    26: 'fn cb26<\'s>(_lex: &mut L<\'s>) -> bool { zoo_rt::called(); false }',
    # kinds written as closures that hand the lexer to a helper and go on with its result (`|lex| cb27i(lex) == false`,
    # `|lex| cb28i(lex).filter(|_| false)`): what counts is the closure's value, not the helper's
    27: 'fn cb27<\'s>(lex: &mut L<\'s>) -> bool { zoo_rt::called(); sel(lex) == 0 } fn cb27i<\'s>(lex: &mut L<\'s>) -> bool { zoo_rt::called(); sel(lex) != 0 }',
    28: 'fn cb28<\'s>(_lex: &mut L<\'s>) -> Option<()> { zoo_rt::called(); None } fn cb28i<\'s>(lex: &mut L<\'s>) -> Option<()> { zoo_rt::called(); if sel(lex) == 0 { None } else { Some(()) } }',
    29: 'fn cb29<\'s>(lex: &mut L<\'s>) -> bool { zoo_rt::called(); let r: &[u8] = AsRef::<[u8]>::as_ref(lex.remainder()); if !r.is_empty() { let n = if r[0] < 128 { 1 } else if r[0] < 224 { 2 } else if r[0] < 240 { 3 } else { 4 }; lex.bump(n.min(r.len())) } false }',
    23: 'fn cb23<\'s>(lex: &mut L<\'s>) -> Result<(), ZErr> { zoo_rt::called(); if sel(lex) == 0 { Err(ZErr::Default) } else { Ok(()) } }',
    24: 'fn cb24<\'s>(lex: &mut L<\'s>) -> logos::FilterResult<usize, ZErr> { zoo_rt::called(); match sel(lex) { 0 => logos::FilterResult::Skip, 1 => logos::FilterResult::Error(ZErr::Default), _ => logos::FilterResult::Emit(lex.slice().len()) } }',
}


def def_module(idx, d):
    """Rust module text for definition number idx"""
    used = sorted({l.cb for l in d.leaves if l.cb})
    ty = "T<'s>" if d.has_lifetime() else 'T'
    lines = ['pub mod d%d {' % idx,
             '    #![allow(dead_code, unused_imports)]',
             '    use logos::Logos;',
             '    use zoo_rt::ZErr;',
             '    type L<\'s> = logos::Lexer<\'s, TY>;'.replace('TY', ty),
             '    fn sel(lex: &L) -> usize { let s: &[u8] = AsRef::<[u8]>::as_ref(lex.slice()); (s.len() + s.first().copied().unwrap_or(0) as usize) % 3 }',
             '    fn bump1(lex: &mut L) { let r: &[u8] = AsRef::<[u8]>::as_ref(lex.remainder()); if !r.is_empty() && r[0] < 128 { lex.bump(1) } }']
    for k in used:
        lines.append('    ' + CB_SRC[k].replace('TY', ty))
        lines.append('    mod as_skip%d { pub(super) use super::cb%d as skip; }' % (k, k))
    for ln in d.source('T').split('\n'):
        lines.append('    ' + ln)
    lines.append('}')
    return '\n'.join(lines)


def shard_lib(idxs, defs):
    out = ['#![allow(clippy::all)]']
    for i in idxs:
        out.append(def_module(i, defs[i]))
    out.append('pub fn run(idx: usize, mode: &str, input: &[u8]) -> Option<String> {')
    out.append('    match idx {')
    for i in idxs:
        if defs[i].utf8 and not defs[i].has_lifetime():
            out.append('        %d => Some(match std::str::from_utf8(input) { Ok(s) => if mode == "S" { zoo_rt::stack_probe_str::<d%d::T>(s, 4 << 20) } else if mode == "A" { zoo_rt::stack_probe_str::<d%d::T>(s, 4096) } else { zoo_rt::lex_str::<d%d::T>(s, mode) }, Err(_) => "NOTUTF8".into() }),' % (i, i, i, i))
        elif defs[i].utf8:
            out.append('        %d => Some(match std::str::from_utf8(input) { Ok(s) => zoo_rt::lex_str::<d%d::T>(s, mode), Err(_) => "NOTUTF8".into() }),' % (i, i))
        else:
            out.append('        %d => Some(zoo_rt::lex_bytes::<d%d::T>(input, mode)),' % (i, i))
    out.append('        _ => None,')
    out.append('    }')
    out.append('}')
    return '\n'.join(out) + '\n'


MAIN_RS = '''use std::io::{BufRead, Write};
fn main() {
    std::panic::set_hook(Box::new(|_| {}));
    let stdin = std::io::stdin();
    let stdout = std::io::stdout();
    let mut out = std::io::BufWriter::new(stdout.lock());
    for line in stdin.lock().lines() {
        let line = line.unwrap();
        let mut it = line.split(' ');
        let (Some(idx), Some(mode), Some(hex)) = (it.next(), it.next(), it.next()) else { continue };
        let idx: usize = idx.parse().unwrap();
        let input = zoo_rt::unhex(hex);
        let mode_s = mode.to_string();
        let r = std::panic::catch_unwind(move || if mode_s.starts_with('t') { zoo_rt::with_tail(&input, |inp| run(idx, &mode_s, inp)) } else { zoo_rt::with_tails(&input, |inp| run(idx, &mode_s, inp)) });
        let s = match r { Ok(Some(s)) => s, Ok(None) => "NODEF".to_string(), Err(_) => "PANIC".to_string() };
        writeln!(out, "{} {} {} : {}", idx, mode, hex, s.trim_end()).unwrap();
        out.flush().unwrap();
    }
}
fn run(idx: usize, mode: &str, input: &[u8]) -> Option<String> {
%s    None
}
'''


def write_if_changed(path, text):
    os.makedirs(os.path.dirname(path), exist_ok=True)
    try:
        if open(path).read() == text:
            return False
    except FileNotFoundError:
        pass
    open(path, 'w').write(text)
    return True


def write_zoo(name, defs, idxs, nshards=8):
    """write the zoo workspace `work/<name>`; returns its directory"""
    root = os.path.join(WORK, name)
    idxs = list(idxs)
    shards = [idxs[i::nshards] for i in range(nshards)]
    shards = [s for s in shards if s]
    members = []
    for si, sh in enumerate(shards):
        cn = 's%d' % si
        members.append(cn)
        write_if_changed(os.path.join(root, cn, 'Cargo.toml'), '''[package]
name = "%s"
version = "0.0.0"
edition = "2021"
[dependencies]
logos = { path = "/repo" }
zoo_rt = { path = "%s/zoo_rt" }
''' % (cn, HARNESS))
        write_if_changed(os.path.join(root, cn, 'src', 'lib.rs'), shard_lib(sh, defs))
    calls = ''.join('    if let Some(s) = %s::run(idx, mode, input) { return Some(s); }\n' % m for m in members)
    write_if_changed(os.path.join(root, 'zoo', 'src', 'main.rs'), MAIN_RS % calls)
    deps = ''.join('%s = { path = "../%s" }\n' % (m, m) for m in members)
    write_if_changed(os.path.join(root, 'zoo', 'Cargo.toml'), '''[package]
name = "zoo"
version = "0.0.0"
edition = "2021"
[features]
sm = ["zoo_rt/sm"]
safe = ["zoo_rt/safe"]
trace = ["zoo_rt/trace"]
[dependencies]
zoo_rt = { path = "%s/zoo_rt" }
%s''' % (HARNESS, deps))
    write_if_changed(os.path.join(root, 'Cargo.toml'), '''[workspace]
members = [%s]
resolver = "2"
[profile.dev]
debug = false
opt-level = 0
incremental = false
[profile.release]
debug = false
opt-level = 2
lto = false
codegen-units = 16
''' % ', '.join('"%s"' % m for m in members + ['zoo']))
    shutil.copyfile('/repo/Cargo.lock', os.path.join(root, 'Cargo.lock')) if not os.path.exists(os.path.join(root, 'Cargo.lock')) else None
    write_if_changed(os.path.join(root, '.cargo', 'config.toml'), '[net]\noffline = true\n')
    # drop stale shard dirs
    for e in os.listdir(root):
        if e.startswith('s') and e[1:].isdigit() and e not in members:
            shutil.rmtree(os.path.join(root, e))
    return root


def build_zoo(root, config, release=False, jobs=None):
    feats = CONFIGS[config]
    tdir = os.path.join(HARNESS, 'target-zoo', os.path.basename(root) + '-' + config)
    cmd = ['cargo', 'build', '--offline', '-p', 'zoo', '--target-dir', tdir]
    if release:
        cmd.append('--release')
    if feats:
        cmd += ['--features', ','.join(feats)]
    if jobs:
        cmd += ['-j', str(jobs)]
    t0 = time.time()
    p = subprocess.run(cmd, cwd=root, env=ENV, capture_output=True, text=True)
    binp = os.path.join(tdir, 'release' if release else 'debug', 'zoo')
    return dict(ok=p.returncode == 0, bin=binp, stderr=p.stderr, secs=time.time() - t0, config=config)


def build_all(root, configs, release=False):
    jobs = max(2, 16 // max(1, len(configs)))
    with ThreadPoolExecutor(len(configs)) as ex:
        res = list(ex.map(lambda c: build_zoo(root, c, release, jobs), configs))
    return {r['config']: r for r in res}


def _run_chunk(binp, ch, line_timeout):
    """run zoo processes over the requests `ch` (in order). A request that produces no answer within
    `line_timeout` seconds is marked HANG (process killed and restarted on the remaining requests); a
    process that dies marks the request it was working on CRASH. After two hangs/crashes of one definition
    its remaining requests are answered HANG without being run, so a lexer that spins on every input
    costs a bounded amount of time."""
    import threading, queue
    res = [None] * len(ch)
    bad = {}
    pending = list(range(len(ch)))          # indices into ch still to be answered, in order
    restarts = 0
    while pending:
        # drop requests of definitions already known to be bad
        keep = []
        for k in pending:
            if bad.get(ch[k].split(' ')[0], 0) >= 2:
                res[k] = ch[k] + ' : HANG'
            else:
                keep.append(k)
        pending = keep
        if not pending:
            break
        if restarts > 400:
            for k in pending:
                res[k] = ch[k] + ' : NOTRUN'
            break
        p = subprocess.Popen([binp], stdin=subprocess.PIPE, stdout=subprocess.PIPE, stderr=subprocess.DEVNULL, text=True, bufsize=1)
        q = queue.Queue()

        def reader(pp=p, qq=q):
            try:
                for ln in pp.stdout:
                    qq.put(ln.rstrip('\n'))
            except Exception:
                pass
            qq.put(None)
        threading.Thread(target=reader, daemon=True).start()

        def writer(pp=p, todo=[ch[k] for k in pending]):
            try:
                pp.stdin.write('\n'.join(todo) + '\n')
                pp.stdin.close()
            except Exception:
                pass
        threading.Thread(target=writer, daemon=True).start()
        pos = 0
        failed = False
        while pos < len(pending):
            k = pending[pos]
            try:
                ln = q.get(timeout=line_timeout)
            except queue.Empty:
                ln = False
            if ln is False or ln is None:
                d = ch[k].split(' ')[0]
                bad[d] = bad.get(d, 0) + 1
                res[k] = ch[k] + (' : HANG' if ln is False else ' : CRASH')
                pos += 1
                failed = True
                break
            if ln.startswith(ch[k] + ' :'):
                res[k] = ln
                pos += 1
        try:
            p.kill()
        except Exception:
            pass
        try:
            p.wait(timeout=5)
        except Exception:
            pass
        pending = pending[pos:]
        if failed:
            restarts += 1
    return res


def run_zoo(binp, requests, timeout=600, nproc=4, line_timeout=8):
    """requests: list of 'idx mode hex' lines. Returns list of output lines (same order)."""
    if not requests:
        return []
    chunks = [requests[i::nproc] for i in range(nproc)]
    with ThreadPoolExecutor(nproc) as ex:
        outs = list(ex.map(lambda ch: _run_chunk(binp, ch, line_timeout), chunks))
    merged = [None] * len(requests)
    for ci, o in enumerate(outs):
        for j, ln in enumerate(o):
            merged[ci + j * nproc] = ln
    return merged
