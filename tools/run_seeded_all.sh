#!/bin/sh
# apply every seeded change in turn, run the check of the property it was written for, expect exit 1; undo.
cd "$(dirname "$0")/.."
for d in seeded/*/; do
  n=$(basename $d)
  p=$(python3 -c "import json;print(json.load(open('$d/meta.json'))['property'])")
  git -C /repo apply "$PWD/$d/patch.diff" || { echo "$n: patch does not apply"; continue; }
  timeout 1500 ./check $p > /tmp/seeded_$n.out 2>&1
  rc=$?
  git -C /repo checkout -- .
  echo "$n [$p] exit=$rc violations=$(grep -c '^VIOLATION' /tmp/seeded_$n.out) with-input=$(grep '^VIOLATION' /tmp/seeded_$n.out | grep -vc no-failing-input-found)"
done
