#!/bin/sh
# usage: [PROPS="C12 C15"] tools/run_seeded_par.sh [N]   -- (PROPS: only the changes written for these properties)
# the regression over every saved seeded change, in N sandboxes (tools/sandbox.sh), in parallel.
# Each sandbox applies its share of the changes one after the other to its private /repo and runs the check of the property the
# change was written for; expected: exit 1 with VIOLATION lines.  Results: /var/tmp/sb/reg-<k>.log, summary on stdout.
N=${1:-4}
cd "$(dirname "$0")/.."
ls -d seeded/*/ | sed 's#seeded/##;s#/##' > /var/tmp/sb-list.txt 2>/dev/null || { mkdir -p /var/tmp; ls -d seeded/*/ | sed 's#seeded/##;s#/##' > /var/tmp/sb-list.txt; }
if [ -n "$PROPS" ]; then
  for n in $(cat /var/tmp/sb-list.txt); do p=$(python3 -c "import json;print(json.load(open('seeded/$n/meta.json'))['property'])"); case " $PROPS " in *" $p "*) echo $n;; esac; done > /var/tmp/sb-list2.txt
  mv /var/tmp/sb-list2.txt /var/tmp/sb-list.txt
fi
[ -n "$LIST" ] && cp "$LIST" /var/tmp/sb-list.txt     # LIST=<file>: only the changes named in the file
mkdir -p /var/tmp/sb
k=0
while [ $k -lt $N ]; do
  awk -v n=$N -v k=$k 'NR % n == k' /var/tmp/sb-list.txt > /var/tmp/sb/reg-$k.list
  (tools/sandbox.sh reg-$k sh -c '
     for n in $(cat /var/tmp/sb/reg-'$k'.list); do
       p=$(python3 -c "import json;print(json.load(open(\"seeded/$n/meta.json\"))[\"property\"])")
       git -C /repo apply "/verif/seeded/$n/patch.diff" || { echo "$n: patch does not apply"; continue; }
       timeout 1500 ./check $p > /var/tmp/sb/out-$n.txt 2>&1; rc=$?
       git -C /repo checkout -- . ; git -C /repo clean -fdq
       echo "$n [$p] exit=$rc violations=$(grep -c "^VIOLATION" /var/tmp/sb/out-$n.txt) with-input=$(grep "^VIOLATION" /var/tmp/sb/out-$n.txt | grep -vc no-failing-input-found)"
     done' > /var/tmp/sb/reg-$k.log 2>&1) &
  k=$((k+1))
done
wait
cat /var/tmp/sb/reg-*.log | sort
echo "not detected:"; cat /var/tmp/sb/reg-*.log | grep -v "exit=1 violations=[1-9]" || echo "  (none)"
