#!/bin/sh
# usage: tools/try_benign_par.sh [<area> ...]   -- like try_benign.sh, but every patch in its own sandbox (tools/sandbox.sh), in parallel;
# results: /var/tmp/sb/benign-<area>.log.  Every check is expected to stay quiet.
cd "$(dirname "$0")/.."
[ $# -eq 0 ] && set -- $(ls benign)
mkdir -p /var/tmp/sb
for A in "$@"; do
  (tools/sandbox.sh ben-$A sh -c '
     A="$1"
     git -C /repo apply "/verif/benign/$A/patch.diff" || { echo "$A: patch does not apply"; exit 2; }
     for P in C01 C02 C03 C04 C05 C06 C07 C08 C09 C10 C11 C12 C13 C14 C15 C16 C17 C18 C19 C20; do
       ./check $P > /var/tmp/sb/benign-$A-$P.out 2>&1; rc=$?
       v=$(grep -c "^VIOLATION" /var/tmp/sb/benign-$A-$P.out)
       [ "$rc" != "0" -o "$v" != "0" ] && echo "$A $P exit=$rc violations=$v with-input=$(grep "^VIOLATION" /var/tmp/sb/benign-$A-$P.out | grep -vc no-failing-input-found)"
     done
     echo "$A done"' sh "$A" > /var/tmp/sb/benign-$A.log 2>&1) &
done
wait
cat /var/tmp/sb/benign-*.log
