"""Definition families for the definition-level properties (C08–C11, C18, C19).
Each case is a dict: src (enum source), family, meta (what the check needs to know)."""
import random
from defs import rust_str, rust_bytes
from regexgen import gen_regex, esc_lit

HDR = '#[derive(Logos, Debug, PartialEq, Clone)]'


def enum(attrs, variants, name='T'):
    return '\n'.join([HDR] + attrs + ['pub enum %s {' % name] + ['    ' + v for v in variants] + ['}'])


def my_escape(s):
    """independent escaping of a literal for the regex syntax"""
    out = []
    for ch in s:
        if ch.isalnum() or ch in ' _éßǆǅ中😀,;:!@%"\'<>=/' or ord(ch) > 127:
            out.append(ch)
        else:
            out.append('\\x{%x}' % ord(ch))
    return ''.join(out)


def my_escape_bytes(b):
    return ''.join('\\x%02x' % x for x in b)


LITS = ['a', 'ab', 'Abc', 'a+b', 'x.y', '(', ')', '[a]', 'a|b', 'a*', 'a?', '\\', '\\d', '^a$', '{2}', 'a-b', '#', '&&', '~',
        'é', 'É', 'ß', 'ǆ', 'ǅ', 'élan', '中', '😀', 'k', 'K', 'ſ', 'if', 'i', 'İ', 'σς', 'ab cd', '"', '\t', 'a\nb', '$', '.*', '[^a]', '(?i)a']
BLITS = [b'a', b'AB', b'a+', b'\xff', b'\x00a', b'k\xc3\xa9', b'\x80\x81', b'[a]', b'\\', b'Z\xe4', b'a\xffb', b'\xfe\xff', b'\x00', b'\xff\xff\x00', b'k\xff']


def c10_token_case(w, ic):
    a = '#[token(%s, priority = 3%s)] A,' % (rust_str(w), ', ignore(case)' if ic else '')
    ref = ('(?i:%s)' % my_escape(w)) if ic else my_escape(w)
    b = '#[regex(%s, priority = 2)] B,' % rust_str(ref)
    return dict(family='c10-token', src=enum([], [a, b]), meta=dict(lit=w.encode('utf-8').hex(), icase=ic, unicode=True, pair=(0, 1), token_leaf=0, expect_prio=3))


def c10_btoken_case(w, ic):
    a = '#[token(%s, priority = 3%s)] A,' % (rust_bytes(w), ', ignore(case)' if ic else '')
    ref = ('(?i-u:%s)' % my_escape_bytes(w)) if ic else '(?-u:%s)' % my_escape_bytes(w)
    b = '#[regex(%s, priority = 2)] B,' % rust_str(ref)
    return dict(family='c10-btoken', src=enum(['#[logos(utf8 = false)]'], [a, b]), meta=dict(lit=w.hex(), icase=ic, unicode=False, pair=(0, 1), token_leaf=0))


def fam_c10(R, n):
    """every literal of LITS/BLITS with and without ignore(case) (systematic), then n random regex/skip/priority cases"""
    out = []
    # (with blanks and control characters of every width: escapes of the form \\xNN take exactly two digits)
    for w in LITS + ['kelvins', 'ask', 'S', 's', 'sk', 'Mask', 'µ', 'Ω', 'å', 'ǰ', 'ẞ', 'k\u3000v', '\u2028', 'a\u2003b', '\u1680', 'x\u00a0y', '\u0085', 'p\u200bq', '\x01', 'a\x7f', '\u009f', 'k\u205fK', '\ufeffa', '\U0001f600\u2029']:
        for ic in (True, False):
            out.append(c10_token_case(w, ic))
    for w in BLITS + [b'k', b'S', b'sk']:
        for ic in (True, False):
            out.append(c10_btoken_case(w, ic))
    # every ASCII punctuation character inside a literal, str and byte-string, with and without ignore(case) (some of them
    # become assertions when escaped: \\< \\> \\b ...)
    for ch in '!"#$%&\'()*+,-./:;<=>?@[\\]^_`{|}~':
        for ic in (True, False):
            out.append(c10_token_case('a' + ch + 'b', ic))
            out.append(c10_btoken_case(('a' + ch + 'b').encode('ascii'), ic))
    for i in range(n):
        r = R.random()
        if r < 0.2:
            # default priority of a token is 2 * byte length whether or not case is ignored
            w = R.choice(LITS)
            ic = R.random() < 0.5
            a = '#[token(%s%s)] A,' % (rust_str(w), ', ignore(case)' if ic else '')
            out.append(dict(family='c10-prio', src=enum([], [a]), meta=dict(lit=w.encode('utf-8').hex(), icase=ic, unicode=True, token_leaf=0,
                                                                           expect_prio=2 * len(w.encode('utf-8')))))
        elif r < 0.65:
            ast = gen_regex(R, 1, dict(perl=False))
            p = R.choice([ast.render(), ast.render(), 'k+', 's|t', '[a-k]', 'ask?'])
            a = '#[regex(%s, priority = 3, ignore(case))] A,' % rust_str(p)
            b = '#[regex(%s, priority = 2)] B,' % rust_str('(?i:%s)' % p)
            out.append(dict(family='c10-regex', src=enum([], [a, b]), meta=dict(pattern=p.encode('utf-8').hex(), icase=True, unicode=True, pair=(0, 1))))
        else:
            ast = gen_regex(R, 1, dict(perl=False))
            p = R.choice(['abc', 'a+', 'k', 'é', '[a-c]x', 's+', ast.render()])
            s_ = '#[logos(skip(%s, priority = 3, ignore(case)))]' % rust_str(p)
            b = '#[regex(%s, priority = 2)] B,' % rust_str('(?i:%s)' % p)
            out.append(dict(family='c10-skip', src=enum([s_], [b]), meta=dict(pattern=p.encode('utf-8').hex(), icase=True, unicode=True, pair=(0, 1))))
    # ignore(case) covers the text a pattern takes from a subpattern too (regex and skip)
    for sub in ['ab|c', 'k+', 'é', '[a-c]x']:
        for shape in ['(?&s0)x', 'y(?&s0)', '(?&s0)']:
            ref = '(?i:%s)' % shape.replace('(?&s0)', '(?u:%s)' % sub)
            attrs = ['#[logos(subpattern s0 = %s)]' % rust_str(sub)]
            out.append(dict(family='c10-subpattern', src=enum(attrs, ['#[regex(%s, priority = 3, ignore(case))] A,' % rust_str(shape), '#[regex(%s, priority = 2)] B,' % rust_str(ref)]),
                            meta=dict(icase=True, unicode=True, pair=(0, 1))))
            out.append(dict(family='c10-subpattern', src=enum(attrs + ['#[logos(skip(%s, priority = 3, ignore(case)))]' % rust_str(shape)], ['#[regex(%s, priority = 2)] B,' % rust_str(ref)]),
                            meta=dict(icase=True, unicode=True, pair=(0, 1))))
    # every accepted spelling of the flag group means the same
    for sp in ['ignore(case,)', 'ignore( case )', 'ignore(case, case)', 'ignore(case,case,)', 'ignore(\n        case,\n    )']:
        for (w, lit) in [('select', rust_str('select')), ('Ké', rust_str('Ké'))]:
            a = '#[token(%s, priority = 3, %s)] A,' % (lit, sp)
            b = '#[regex(%s, priority = 2)] B,' % rust_str('(?i:%s)' % my_escape(w))
            out.append(dict(family='c10-spelling', src=enum([], [a, b]), meta=dict(lit=w.encode('utf-8').hex(), icase=True, unicode=True, pair=(0, 1), token_leaf=0, expect_prio=3)))
        a = '#[regex("k[a-c]+", priority = 3, %s)] A,' % sp
        b = '#[regex("(?i:k[a-c]+)", priority = 2)] B,'
        out.append(dict(family='c10-spelling', src=enum([], [a, b]), meta=dict(pattern='k[a-c]+'.encode().hex(), icase=True, unicode=True, pair=(0, 1))))
        s_ = '#[logos(skip("sk+", priority = 3, %s))]' % sp
        out.append(dict(family='c10-spelling', src=enum([s_], ['#[regex("(?i:sk+)", priority = 2)] B,']), meta=dict(pattern='sk+'.encode().hex(), icase=True, unicode=True, pair=(0, 1))))
        a = '#[token(%s, priority = 3, %s)] A,' % (rust_bytes(b'ab\xff'), sp)
        b = '#[regex(%s, priority = 2)] B,' % rust_str('(?i-u:ab\\xff)')
        out.append(dict(family='c10-spelling', src=enum(['#[logos(utf8 = false)]'], [a, b]), meta=dict(lit=b'ab\xff'.hex(), icase=True, unicode=False, pair=(0, 1), token_leaf=0)))
    # patterns whose text mentions no letter at all yet denotes letters (class ranges between punctuation end points, negated
    # classes, the dot): the flag matters although nothing in the source looks like it could
    for p in ['[0-_]', '[?-\\[]', '[!-~]+', '[@-Z]+', '[\\[-\\{]+', '[^0-9 ]+', '[^!]', '[0-_]+[0-9]', '([:-`]|[0-9])+', '[!-⁜]+', '[^\\x{0}-@]'.replace('x', 'x'), '[0-9]+', '[:-`]{2}', '[_-{]+;',
              '[\\[-\\{&&[^0-9]]+', '[[:-@][_-|]]+']:
        if any(ch.isalpha() for ch in p):
            continue
        a = '#[regex(%s, priority = 3, ignore(case))] A,' % rust_str(p)
        b = '#[regex(%s, priority = 2)] B,' % rust_str('(?i:%s)' % p)
        out.append(dict(family='c10-letterless', src=enum([], [a, b]), meta=dict(pattern=p.encode('utf-8').hex(), icase=True, unicode=True, pair=(0, 1))))
        s_ = '#[logos(skip(%s, priority = 3, ignore(case)))]' % rust_str(p)
        out.append(dict(family='c10-letterless', src=enum([s_], [b]), meta=dict(pattern=p.encode('utf-8').hex(), icase=True, unicode=True, pair=(0, 1))))
        if all(ord(ch) < 128 for ch in p):
            a = '#[regex(%s, priority = 3, ignore(case))] A,' % rust_bytes(p.encode('ascii'))
            b2 = '#[regex(%s, priority = 2)] B,' % rust_str('(?i-u:%s)' % p)
            out.append(dict(family='c10-letterless', src=enum(['#[logos(utf8 = false)]'], [a, b2]), meta=dict(pattern=p.encode('utf-8').hex(), icase=True, unicode=False, pair=(0, 1))))
    # patterns with look-around assertions: ignore(case) must not touch the assertion
    for p in ['ab$', 'k(?-u:\\b)', 'a(?m:$)\\n?', 'sk(?-u:\\B)x', 'ask(?-u:\\b{end})', 'é(?mR:$)']:
        a = '#[regex(%s, priority = 3, ignore(case))] A,' % rust_str(p)
        b = '#[regex(%s, priority = 2)] B,' % rust_str('(?i:%s)' % p)
        out.append(dict(family='c10-look', src=enum([], [a, b]), meta=dict(icase=True, unicode=True, pair=(0, 1))))
    return out


def fam_c11(R, n):
    out = []
    for i in range(n):
        nsub = R.choice([1, 1, 2, 3])
        subs = []   # (name, text, inlined)
        for k in range(nsub):
            choice = R.random()
            if choice < 0.3:
                text = R.choice(['a|b', 'ab|c', 'x|yz|w', '[0-9]|_'])
            elif choice < 0.45:
                text = R.choice(['(?i)a', '(?i)k+', '(?s).', '(?i)é'])
            elif choice < 0.6 and subs:
                j = R.randrange(len(subs))
                text = R.choice(['(?&%s)+', 'x(?&%s)', '(?&%s)|q', '(?&%s)(?&%s)']).replace('%s', subs[j][0])
            else:
                text = gen_regex(R, 1, dict(perl=False)).render()
            name = 's%d' % k
            inl = text
            for (nm, _, inn) in subs:
                inl = inl.replace('(?&%s)' % nm, inn)
            subs.append((name, text, '(?u:%s)' % inl))
        j = R.randrange(len(subs))
        shape = R.choice(['(?&%s)', '(?&%s)c', 'c(?&%s)', 'c(?&%s)d', '(?&%s)*z', '(?&%s)|w', 'B(?&%s)B', '(?&%s)(?&%s)'])
        pat = shape.replace('%s', subs[j][0])
        ref = shape.replace('(?&%s)', subs[j][2])
        attrs = ['#[logos(subpattern %s = %s)]' % (nm, rust_str(t)) for (nm, t, _) in subs]
        a = '#[regex(%s, priority = 3)] A,' % rust_str(pat)
        b = '#[regex(%s, priority = 2)] B,' % rust_str(ref)
        out.append(dict(family='c11-sub', src=enum(attrs, [a, b]), meta=dict(pair=(0, 1), pattern=pat, reference=ref)))
    # nested references, enumerated: an inner subpattern that is not a single atom (alternation, sequence, inline flag)
    # referenced from an outer subpattern in positions where missing grouping would change the meaning
    for inner in ['ab|cd', 'ab', '(?i)k', 'a|b', 'x|', '[a-c]|dd']:
        for outer in ['(?&s0)+;', '(?&s0)-(?&s0)', 'x(?&s0)', '(?&s0)y', '(?&s0){2}', 'q|(?&s0)z']:
            inl0 = '(?u:%s)' % inner
            inl1 = '(?u:%s)' % outer.replace('(?&s0)', inl0)
            for shape in ['(?&s1)', 'w(?&s1)w']:
                pat = shape
                ref = shape.replace('(?&s1)', inl1)
                attrs = ['#[logos(subpattern s0 = %s)]' % rust_str(inner), '#[logos(subpattern s1 = %s)]' % rust_str(outer)]
                out.append(dict(family='c11-nested', src=enum(attrs, ['#[regex(%s, priority = 3)] A,' % rust_str(pat), '#[regex(%s, priority = 2)] B,' % rust_str(ref)]),
                                meta=dict(pair=(0, 1), pattern=pat, reference=ref)))
    # references next to escapes: an escaped backslash or an escaped parenthesis directly before (?&name)
    for inner in ['[0-7]', 'ab|cd']:
        for shape in ['\\\\(?&s0)', '\\\\(?&s0){1,3}', 'a\\\\(?&s0)b', '\\((?&s0)\\)', '[(](?&s0)', '\\\\\\\\(?&s0)', 'x\\.(?&s0)']:
            pat = shape
            ref = shape.replace('(?&s0)', '(?u:%s)' % inner)
            attrs = ['#[logos(subpattern s0 = %s)]' % rust_str(inner)]
            out.append(dict(family='c11-escapes', src=enum(attrs, ['#[regex(%s, priority = 3)] A,' % rust_str(pat), '#[regex(%s, priority = 2)] B,' % rust_str(ref)]),
                            meta=dict(pair=(0, 1), pattern=pat, reference=ref)))
    # references from a skip pattern (both spellings), from a byte-string regex and from a pattern with ignore(case)
    for sub in ['ab|c', '[0-9]+', '(?i)k']:
        for shape in ['(?&s0)x', 'y(?&s0)', '<(?&s0)>+', '(?&s0)', '(?&s0)(?&s0)']:      # (the bare reference included: the feature alone)
            ref = shape.replace('(?&s0)', '(?u:%s)' % sub)
            attrs = ['#[logos(subpattern s0 = %s)]' % rust_str(sub)]
            out.append(dict(family='c11-skip', src=enum(attrs + ['#[logos(skip(%s, priority = 3))]' % rust_str(shape)], ['#[regex(%s, priority = 2)] B,' % rust_str(ref)]),
                            meta=dict(pair=(0, 1), pattern=shape, reference=ref)))
            out.append(dict(family='c11-skip', src=enum(attrs + ['#[logos(skip %s)]' % rust_str(shape)], ['#[regex(%s, priority = 1)] B,' % rust_str(ref), '#[token("zzzzzzzzzzzz")] Z,']),
                            meta=dict(pair=(0, 1), pattern=shape, reference=ref)))
            out.append(dict(family='c11-icase', src=enum(attrs, ['#[regex(%s, priority = 3, ignore(case))] A,' % rust_str(shape), '#[regex(%s, priority = 2)] B,' % rust_str('(?i:%s)' % ref)]),
                            meta=dict(pair=(0, 1), pattern=shape, reference='(?i:%s)' % ref)))
    # references inside non-ASCII text (byte offsets and character counts differ): before, after and between multi-byte characters,
    # with short and long tails
    for sub in ['[0-9]', 'ab|c', 'é', '[α-ω]+']:
        for shape in ['§(?&s0)+', 'é(?&s0)', '(?&s0)é', '中(?&s0){2}', '§§(?&s0)?x', '😀(?&s0)*', '(?&s0)+€€€', 'é(?&s0)é(?&s0)é', 'ä(?&s0)|ö', '[äö](?&s0)b']:
            pat = shape
            ref = shape.replace('(?&s0)', '(?u:%s)' % sub)
            attrs = ['#[logos(subpattern s0 = %s)]' % rust_str(sub)]
            out.append(dict(family='c11-nonascii', src=enum(attrs, ['#[regex(%s, priority = 3)] A,' % rust_str(pat), '#[regex(%s, priority = 2)] B,' % rust_str(ref)]),
                            meta=dict(pair=(0, 1), pattern=pat, reference=ref)))
    for inner, outer in [('[0-9]', 'é(?&s0)+'), ('é|ö', '(?&s0)ü'), ('x', '§(?&s0)')]:
        inl0 = '(?u:%s)' % inner
        inl1 = '(?u:%s)' % outer.replace('(?&s0)', inl0)
        attrs = ['#[logos(subpattern s0 = %s)]' % rust_str(inner), '#[logos(subpattern s1 = %s)]' % rust_str(outer)]
        out.append(dict(family='c11-nonascii', src=enum(attrs, ['#[regex("ß(?&s1)", priority = 3)] A,', '#[regex(%s, priority = 2)] B,' % rust_str('ß' + inl1)]),
                        meta=dict(pair=(0, 1), pattern='ß(?&s1)', reference='ß' + inl1)))
    # the edges of a subpattern's source are part of it: whitespace of every kind, an empty alternative, a dash, a dot, an escape
    for edge in [' ', '\t', '\n', '\r', '\u00a0', '\u2003', '  ', '|', '-', '.', '\\ ', '#', '\x0b', '\x0c']:
        for sub in [edge + 'a', 'a' + edge, edge + 'a' + edge, edge]:
            for shape in ['x(?&s0)y', '(?&s0)+z']:
                if sub == '|' or (sub.strip() == '' and False):
                    continue
                pat = shape
                ref = shape.replace('(?&s0)', '(?u:%s)' % sub)
                attrs = ['#[logos(subpattern s0 = %s)]' % rust_str(sub)]
                out.append(dict(family='c11-edges', src=enum(attrs, ['#[regex(%s, priority = 3)] A,' % rust_str(pat), '#[regex(%s, priority = 2)] B,' % rust_str(ref)]),
                                meta=dict(pair=(0, 1), pattern=pat, reference=ref)))
    # a nested reference whose inner source has whitespace at its edges
    for inner in [' a', 'a ', '\ta\n']:
        inl0 = '(?u:%s)' % inner
        outer = '(?&s0)b(?&s0)'
        inl1 = '(?u:%s)' % outer.replace('(?&s0)', inl0)
        attrs = ['#[logos(subpattern s0 = %s)]' % rust_str(inner), '#[logos(subpattern s1 = %s)]' % rust_str(outer)]
        out.append(dict(family='c11-edges', src=enum(attrs, ['#[regex("q(?&s1)", priority = 3)] A,', '#[regex(%s, priority = 2)] B,' % rust_str('q' + inl1)]),
                        meta=dict(pair=(0, 1), pattern='q(?&s1)', reference='q' + inl1)))
    # subpatterns made of (or containing) look-around assertions
    for (sub, shape) in [('$', 'ab(?&s0)'), ('(?-u:\\b)', '[a-z]+(?&s0)'), ('(?m:$)', 'a(?&s0)\\n?'), ('x(?-u:\\B)', '(?&s0)y'), ('a|b$', 'c(?&s0)'),
                         ('(?-u:\\b{end})|-', '[a-z]+(?&s0)')]:
        pat = shape
        ref = shape.replace('(?&s0)', '(?u:%s)' % sub)
        attrs = ['#[logos(subpattern s0 = %s)]' % rust_str(sub)]
        out.append(dict(family='c11-look', src=enum(attrs, ['#[regex(%s, priority = 3)] A,' % rust_str(pat), '#[regex(%s, priority = 2)] B,' % rust_str(ref)]),
                        meta=dict(pair=(0, 1), pattern=pat, reference=ref)))
    # byte-string subpatterns keep their own (non-Unicode) mode
    for (sub, shape) in [(b'\\xff+', '(?&s0)a'), (b'[\\x80-\\xbf]', 'a(?&s0)'), (b'.', '(?&s0)x')]:
        pat = shape
        ref = shape.replace('(?&s0)', '(?-u:%s)' % sub.decode('latin-1'))
        attrs = ['#[logos(utf8 = false)]', '#[logos(subpattern s0 = %s)]' % rust_bytes(sub)]
        out.append(dict(family='c11-bsub', src=enum(attrs, ['#[regex(%s, priority = 3)] A,' % rust_str(pat), '#[regex(%s, priority = 2)] B,' % rust_str(ref)]),
                        meta=dict(pair=(0, 1), pattern=pat, reference=ref)))
    # a str subpattern keeps Unicode mode when referenced from a byte-string pattern or under an outer (?-u)
    for (sub, shape) in [('\\s+', '#(?&s0)'), ('.', 'a(?&s0)b'), ('[^x]', '(?&s0)+y'), ('\\d', 'n(?&s0)'), ('(?i)k+', '<(?&s0)>'), ('[α-ω]+', '(?&s0)=')]:
        ref = shape.replace('(?&s0)', '(?u:%s)' % sub.replace('\\\\', '\\'))
        sub_src = sub.replace('\\\\', '\\')
        attrs = ['#[logos(utf8 = false)]', '#[logos(subpattern s0 = %s)]' % rust_str(sub_src)]
        if all(ord(ch) < 128 for ch in ref):
            # (a byte-string literal turns every non-ASCII byte into a \xNN escape, so a non-ASCII reference cannot be written this way)
            out.append(dict(family='c11-str-in-bytes', src=enum(attrs, ['#[regex(%s, priority = 3)] A,' % rust_bytes(shape.encode()), '#[regex(%s, priority = 2)] B,' % rust_bytes(ref.encode())]),
                            meta=dict(pair=(0, 1), pattern=shape, reference=ref)))
        attrs2 = ['#[logos(subpattern s0 = %s)]' % rust_str(sub_src)]
        shape2 = '(?-u)' + shape
        ref2 = '(?-u)' + ref
        out.append(dict(family='c11-str-under-nonunicode', src=enum(['#[logos(utf8 = false)]'] + attrs2, ['#[regex(%s, priority = 3)] A,' % rust_str(shape2), '#[regex(%s, priority = 2)] B,' % rust_str(ref2)]),
                        meta=dict(pair=(0, 1), pattern=shape2, reference=ref2)))
    # the text *around* a reference keeps the mode of the literal it is written in: byte-string patterns whose own text is
    # sensitive to Unicode mode (a raw high byte, a dot, a negated class, \\w, (?i) on k), with a str or a byte-string subpattern
    for (sub, sub_is_bytes) in [('[0-9]+', False), ('[0-9]+', True), ('x|yy', False)]:
        for shape in ['\\xff(?&s0)', '.(?&s0)', '[^a](?&s0)', '(?&s0)\\w', '(?i)k(?&s0)', '(?&s0)\\xc3', '(?&s0)[\\x80-\\xff]+(?&s0)', '\\W(?&s0)']:
            inl = ('(?-u:%s)' if sub_is_bytes else '(?u:%s)') % sub
            ref = shape.replace('(?&s0)', inl)
            attrs = ['#[logos(utf8 = false)]', '#[logos(subpattern s0 = %s)]' % (rust_bytes(sub.encode()) if sub_is_bytes else rust_str(sub))]
            out.append(dict(family='c11-bytes-around', src=enum(attrs, ['#[regex(%s, priority = 3)] A,' % rust_bytes(shape.encode()), '#[regex(%s, priority = 2)] B,' % rust_bytes(ref.encode())]),
                            meta=dict(pair=(0, 1), pattern=shape, reference=ref)))
            out.append(dict(family='c11-bytes-around', src=enum(attrs + ['#[logos(skip(%s, priority = 3))]' % rust_bytes(shape.encode())], ['#[regex(%s, priority = 2)] B,' % rust_bytes(ref.encode())]),
                            meta=dict(pair=(0, 1), pattern=shape, reference=ref)))
    # undefined names must be rejected
    for pat in ['(?&nope)', 'a(?&s1)', '(?&s0)(?&S0)']:
        attrs = ['#[logos(subpattern s0 = "a")]']
        out.append(dict(family='c11-undef', src=enum(attrs, ['#[regex(%s)] A,' % rust_str(pat)]), meta=dict(expect_reject='undef_subpattern')))
    # a subpattern's source has to be a pattern on its own: with unbalanced parentheses the group it is wrapped in closes early and the
    # rest of the source (an alternation, a flag) leaks into every pattern that refers to it - `k(?&s0)z` with s0 = `x)|(y` would match "yz"
    for sub in ['x)|(y', 'x)(y', 'a|b)|(c', ')(', 'x)+(y', '(?i)x)|(y', 'x)|(?i:(y)', 'x))|((y']:
        for shape in ['k(?&s0)z', '(?&s0)']:
            out.append(dict(family='c11-unclosed', src=enum(['#[logos(subpattern s0 = %s)]' % rust_str(sub)], ['#[regex(%s)] A,' % rust_str(shape)]),
                            meta=dict(expect_reject='regex_error (the source of the subpattern is not a pattern on its own: the group it is wrapped in would close early and the rest leak into the pattern that refers to it)')))
        out.append(dict(family='c11-unclosed', src=enum(['#[logos(subpattern s0 = %s)]' % rust_str(sub), '#[logos(subpattern s1 = "q(?&s0)r")]'], ['#[regex("k(?&s1)z")] A,']),
                        meta=dict(expect_reject='regex_error (unbalanced subpattern referenced from another subpattern)')))
        out.append(dict(family='c11-unclosed', src=enum(['#[logos(utf8 = false)]', '#[logos(subpattern s0 = %s)]' % rust_bytes(sub.encode())], ['#[regex(b"k(?&s0)z")] A,']),
                        meta=dict(expect_reject='regex_error (unbalanced byte-string subpattern)')))
    return out


POOL8 = ['a', '[a-c]', 'a+', '[a-z]+', 'ab', 'a|b', '(?i:a)', 'a?b', '[ab]c', '.', 'a.', 'aa*', 'a{1,2}', 'abc', 'ab*', '[^b]', 'é', '[é-ü]',
         'a[a-z]*', '[a-z]*b', 'b', 'ba', '[0-9]+', '[0-9a-f]+', '0x[0-9a-f]+', 'a(b|c)', 'ac', '(ab)+', 'abab', 'x', 'xy?', 'a+b+', 'aab']

POOL8L = ['a$', 'a(?-u:\\b)', 'ab$', 'a(?m:$)', 'a(?-u:\\B)', '[a-z]+(?-u:\\b)', 'a+$', 'a(?-u:\\b{end})', 'a(?-u:\\b)-', 'a-', 'a(?mR:$)',
          'a(?-u:\\b{end-half})', 'a\\n', 'a(?m:$)\\n', '[a-c](?-u:\\B)', 'a(?-u:\\b)b', 'ab', 'a(?-u:\\B)b', 'a\\r?(?mR:$)', '[a-z]+$']


def fam_c08(R, n):
    out = []
    for i in range(n):
        k = R.choice([2, 2, 2, 3, 3, 4])
        leaves = []
        mode = R.random()
        base = R.choice([1, 2, 3, 5])
        for j in range(k):
            if R.random() < 0.75:
                p = R.choice(POOL8)
            else:
                p = gen_regex(R, 1, dict(perl=False)).render()
            tok = R.random() < 0.2 and all(c.isalnum() for c in p)
            if mode < 0.45:
                pr = base                      # all equal explicit priorities
            elif mode < 0.75:
                pr = None                      # defaults
            else:
                pr = base + R.choice([0, 0, 1, 2])
            leaves.append((tok, p, pr))
        vs = []
        for j, (tok, p, pr) in enumerate(leaves):
            args = rust_str(p) + ('' if pr is None else ', priority = %d' % pr)
            vs.append('#[%s(%s)] V%d,' % ('token' if tok else 'regex', args, j))
        out.append(dict(family='c08', src=enum([], vs), meta=dict(leaves=leaves)))
    # enumerated (round 28): ignore(case) tokens that are the same once the case is ignored - ASCII and non-ASCII letters, str and
    # byte-string literals (ASCII folding only), two and three of them, with a bystander; the controls differ in a letter
    for (x, y, same) in [('abc', 'ABC', True), ('école', 'École', True), ('straße', 'STRASSE', False), ('ǆ', 'ǅ', True), ('σ', 'ς', True),
                         ('жук', 'ЖУК', True), ('k', '\u212a', True), ('école', 'ecole', False), ('ñ', 'Ñ', True), ('ÿ', 'Ÿ', True)]:
        for order in ((x, y), (y, x)):
            vs = ['#[token(%s, ignore(case))] V%d,' % (rust_str(t), j) for j, t in enumerate(order)]
            out.append(dict(family='c08-caseless', src=enum([], vs), meta=dict(leaves=None)))
            out.append(dict(family='c08-caseless', src=enum([], vs + ['#[regex("[0-9]+")] N,']), meta=dict(leaves=None)))
        vs = ['#[token(%s, ignore(case))] V0,' % rust_str(x), '#[token(%s)] V1,' % rust_str(y)]
        out.append(dict(family='c08-caseless', src=enum([], vs), meta=dict(leaves=None)))
    # enumerated (round 27): an explicit priority that equals the default of the pattern it overlaps with - a tie like any other,
    # whichever of the two is the written one and in either declaration order; the controls are one off
    for (k1, p1, d1), (k2, p2, d2) in [(('token', 'let', 6), ('regex', '[a-z]+', 2)), (('regex', 'ab', 4), ('regex', '[a-c]b', 4)),
                                       (('regex', 'a+', 2), ('token', 'a', 2)), (('regex', '[a-z]+', 2), ('regex', 'a[a-z]', 4)),
                                       (('token', 'if', 4), ('regex', 'i[a-z]', 4)), (('regex', '[0-9]+', 2), ('regex', '[0-9][0-9a-f]*', 2))]:
        for delta in (0, 1):
            for written in (0, 1):
                # the written side gets `priority = default of the other (+ delta)`
                a = '#[%s(%s%s)] V0,' % (k1, rust_str(p1), ', priority = %d' % (d2 + delta) if written == 0 else '')
                b = '#[%s(%s%s)] V1,' % (k2, rust_str(p2), ', priority = %d' % (d1 + delta) if written == 1 else '')
                for vs in ([a, b], [b.replace('V1', 'V0'), a.replace('V0', 'V1')]):
                    out.append(dict(family='c08-mixed', src=enum([], vs), meta=dict(leaves=None)))
    # enumerated: three patterns matching a common string, two tied at the top priority, the third lower, in every
    # declaration order (the tied ones adjacent, or separated by the lower one)
    for trip in itertools.permutations(['a', '[a-c]', 'a+', '[a-z]+'], 3):
        for prs in [(3, 2, 3), (3, 3, 2), (2, 3, 3), (5, 1, 5)]:
            leaves = [(False, p_, pr_) for p_, pr_ in zip(trip, prs)]
            vs = ['#[regex(%s, priority = %d)] V%d,' % (rust_str(p_), pr_, j) for j, (_, p_, pr_) in enumerate(leaves)]
            out.append(dict(family='c08-enum', src=enum([], vs), meta=dict(leaves=leaves)))
    # enumerated: the same tie in every pair of attribute positions (regex, token, skip, skip with a callback), both orders, with and
    # without a lower-priority bystander
    forms = {'regex': lambda p, pr: ('v', '#[regex(%s, priority = %d)] V%%d,' % (rust_str(p), pr)),
             'token': lambda p, pr: ('v', '#[token(%s, priority = %d)] V%%d,' % (rust_str(p), pr)),
             'skip': lambda p, pr: ('a', '#[logos(skip(%s, priority = %d))]' % (rust_str(p), pr)),
             'skipcb': lambda p, pr: ('a', '#[logos(skip(%s, priority = %d, callback = |_| logos::Skip))]' % (rust_str(p), pr))}
    for fa in ('regex', 'token', 'skip', 'skipcb'):
        for fb in ('regex', 'token', 'skip', 'skipcb'):
            for (pa, pb) in [('ab', 'ab'), ('ab', '[a-c]b'), ('\\n', '[ \\t\\n]')]:
                if (fa == 'token' and not pa.isalnum()) or (fb == 'token' and not pb.isalnum()):
                    continue
                for bystander in (False, True):
                    attrs, vs = [], []
                    for (f_, p_) in ((fa, pa), (fb, pb)):
                        kind, text = forms[f_](p_, 6)
                        if kind == 'a':
                            attrs.append(text)
                        else:
                            vs.append(text % len(vs))
                    if bystander:
                        vs.append('#[regex("[a-z\\n]+", priority = 1)] W,')
                    if not vs:
                        vs.append('#[token("zzzz")] Z,')
                    out.append(dict(family='c08-positions', src=enum(attrs, vs), meta=dict(leaves=None)))
    # the same pattern text twice on one variant (the attributes differ in callback, ignore(case), kind or not at all): a tie like
    # any other, whatever the diagnostics call the two leaves
    for (a1, a2, body) in [('#[token("ab", |_| 1u8)]', '#[token("ab", |_| 2u8)]', 'Pair(u8)'), ('#[token("on")]', '#[token("on", ignore(case))]', 'On'),
                           ('#[regex("a+")]', '#[regex("a+", |_| ())]', 'A'), ('#[token("x")]', '#[token("x")]', 'X'), ('#[token("ab")]', '#[regex("ab")]', 'Ab'),
                           ('#[regex("[0-9]+", priority = 5)]', '#[regex("[0-9]+", priority = 5, callback = |_| ())]', 'N'),
                           ('#[token("if", priority = 3)]', '#[token("if", priority = 4)]', 'If'), ('#[token(b"ab")]', '#[token("ab")]', 'Ab')]:
        for order in ((a1, a2), (a2, a1)):
            for bystander in (False, True):
                vs = ['%s\n    %s\n    %s,' % (order[0], order[1], body)] + (['#[regex("[a-z0-9]+", priority = 1)] W,'] if bystander else [])
                out.append(dict(family='c08-same-variant', src=enum([], vs), meta=dict(leaves=None)))
    # many patterns matching one string (fixed-size buffers, per-state lists): n bystanders at distinct lower priorities, then a
    # tied pair at the top - first, last, or around the bystanders - and the same with the top unique
    for nb in (15, 16, 17, 31, 33, 64, 65):
        for where in ('last', 'first', 'around'):
            for tied in (True, False):
                by = [(False, 'x|q%d' % j, j + 1) for j in range(nb)]
                a, b = (True, 'x', nb + 5), (False, '[x-z]', nb + 5 if tied else nb + 6)
                leaves = by + [a, b] if where == 'last' else ([a, b] + by if where == 'first' else [a] + by + [b])
                vs = ['#[%s(%s, priority = %d)] V%d,' % ('token' if t_ else 'regex', rust_str(p_), pr_, j) for j, (t_, p_, pr_) in enumerate(leaves)]
                out.append(dict(family='c08-many', src=enum([], vs), meta=dict(leaves=leaves)))
    # enumerated: every look-around pattern of the pool against companions that match the same text and may go on
    # (the tie then exists only in some following contexts, and the ambiguous DFA state may still have outgoing edges)
    companions = ['a', 'a[a-z]*', 'a[a-zA-Z0-9_]*', 'ab', 'a+', '[a-z]+', 'a[a-z0-9_]{2,}', 'a-', 'a\\n?']
    for lp in POOL8L:
        for cp in companions:
            if lp == cp:
                continue
            for order in (0, 1):
                pair = (lp, cp) if order == 0 else (cp, lp)
                leaves = [(False, pair[0], 4), (False, pair[1], 4)]
                vs = ['#[regex(%s, priority = 4)] V%d,' % (rust_str(p_), j) for j, p_ in enumerate(pair)]
                out.append(dict(family='c08-look-enum', src=enum([], vs), meta=dict(leaves=leaves)))
    # look-around patterns: two patterns may tie only in some contexts (end of input, before a non-word byte, ...)
    for i in range(max(6, n // 3)):
        k = R.choice([2, 2, 3, 3, 4])
        mode = R.random()
        base = R.choice([1, 2, 3, 5])
        leaves = []
        for j in range(k):
            p = R.choice(POOL8L) if (j == 0 or R.random() < 0.5) else R.choice(POOL8)
            pr = base if mode < 0.5 else (None if mode < 0.75 else base + R.choice([0, 0, 1, 2]))
            leaves.append((False, p, pr))
        vs = ['#[regex(%s)] V%d,' % (rust_str(p) + ('' if pr is None else ', priority = %d' % pr), j) for j, (_, p, pr) in enumerate(leaves)]
        out.append(dict(family='c08-look', src=enum([], vs), meta=dict(leaves=leaves)))
    return out


def fam_c09(R, n):
    out = []
    specials = ['a|bc|def', '(a|bc)(d|efg)', 'a{3}', 'a{2,5}b', '(ab){2,}', '(a|b)*c', '[a-z]{3}x?', 'é+', '中{2}', 'aé中😀', '(?i:ab)', '(?i)k',
                '\\d+', 'a(?:b(?:c(?:d)?)?)?', 'x|', '(a|)b', '(?-u:\\xff)a', 'a$', '(?-u:\\b)ab', '[a-z]+|[0-9]{2,}', '((a{2}){2}){2}', 'a??b', 'a*?b', '']
    for i in range(n):
        if i < len(specials):
            p = specials[i]
        else:
            p = gen_regex(R, 2).render()
        kind = R.choice(['regex', 'regex', 'skip'])
        byte_mode = '\\xff' in p
        attrs = ['#[logos(utf8 = false)]'] if byte_mode else []
        if kind == 'skip':
            attrs.append('#[logos(skip(%s))]' % rust_str(p))
            vs = ['#[token("zzzz")] Z,']
        else:
            vs = ['#[regex(%s)] A,' % rust_str(p), '#[token("zzzz")] Z,']
        out.append(dict(family='c09', src=enum(attrs, vs), meta=dict(pattern=p, leaf=0, token_leaf=1, token_len=4)))
    # tokens: 2 * byte length, multi-byte and byte literals
    for w in ['a', 'é', '中中', '😀x', 'a+b', '']:
        out.append(dict(family='c09-token', src=enum([], ['#[token(%s)] A,' % rust_str(w)]), meta=dict(token_leaf=0, token_len=len(w.encode('utf-8')))))
    for w in [b'\xff\xfe', b'a\x00b']:
        out.append(dict(family='c09-token', src=enum(['#[logos(utf8 = false)]'], ['#[token(%s)] A,' % rust_bytes(w)]), meta=dict(token_leaf=0, token_len=len(w))))
    # a token's default priority is 2 * byte length of the literal as written, with ignore(case) too: letters whose case variants
    # are longer or shorter in UTF-8 (Kelvin sign, long s, Ohm sign, Angstrom sign, capital sharp s, dotted capital I, ...)
    for w in ['\u212a', '\u017f\u017f', '\u2126m', 'a\u212b', '\u1e9e', '\u0130x', 'k', 's', 'K\u212a', '\u2c6f', 'ǆ', 'ab']:
        for ic in (False, True):
            out.append(dict(family='c09-token-fold', src=enum([], ['#[token(%s%s)] A,' % (rust_str(w), ', ignore(case)' if ic else '')]),
                            meta=dict(token_leaf=0, token_len=len(w.encode('utf-8')))))
    for w in [b'k', b'\xc5\xbf', b'K\xe2\x84\xaa']:
        out.append(dict(family='c09-token-fold', src=enum(['#[logos(utf8 = false)]'], ['#[token(%s, ignore(case))] A,' % rust_bytes(w)]), meta=dict(token_leaf=0, token_len=len(w))))
    # explicit priority replaces the default
    for p, pr in [('a+', 7), ('[a-z]{4}', 1), ('abc', 0)]:
        out.append(dict(family='c09-explicit', src=enum([], ['#[regex(%s, priority = %d)] A,' % (rust_str(p), pr)]), meta=dict(leaf=0, explicit=pr)))
        out.append(dict(family='c09-explicit', src=enum([], ['#[regex(%s, priority = %d, ignore(case))] A,' % (rust_str(p), pr + 1)]), meta=dict(leaf=0, explicit=pr + 1)))
        out.append(dict(family='c09-explicit', src=enum(['#[logos(skip(%s, priority = %d))]' % (rust_str(p), pr + 2)], ['#[token("zzzz")] Z,']), meta=dict(leaf=0, explicit=pr + 2)))
    for w, pr in [('abc', 1), ('é', 9), ('k', 0)]:
        out.append(dict(family='c09-explicit', src=enum([], ['#[token(%s, priority = %d)] A,' % (rust_str(w), pr)]), meta=dict(leaf=0, explicit=pr)))
        out.append(dict(family='c09-explicit', src=enum([], ['#[token(%s, priority = %d, ignore(case))] A,' % (rust_str(w), pr + 3)]), meta=dict(leaf=0, explicit=pr + 3)))
    # ... whatever its value: every number some rule could take for "the default" or for "unset" (0, 1, twice the length in
    # characters, twice the length in bytes, the lengths themselves, their neighbours), on literals with characters of every width
    for w in ['é', '→→', 'a中', '😀', 'ab', 'ǆk']:
        nb, nc = len(w.encode('utf-8')), len(w)
        for pr in sorted({0, 1, 2, nc, nb, 2 * nc, 2 * nb, 2 * nc + 1, 2 * nb - 1, 2 * nb + 1, nc + nb}):
            out.append(dict(family='c09-explicit', src=enum([], ['#[token(%s, priority = %d)] A,' % (rust_str(w), pr)]), meta=dict(leaf=0, explicit=pr)))
            out.append(dict(family='c09-explicit', src=enum([], ['#[token(%s, priority = %d, ignore(case))] A,' % (rust_str(w), pr)]), meta=dict(leaf=0, explicit=pr)))
            out.append(dict(family='c09-explicit', src=enum([], ['#[regex(%s, priority = %d)] A,' % (rust_str(w), pr)]), meta=dict(leaf=0, explicit=pr)))
            out.append(dict(family='c09-explicit', src=enum(['#[logos(skip(%s, priority = %d))]' % (rust_str(w), pr)], ['#[token("zzzz")] Z,']), meta=dict(leaf=0, explicit=pr)))
        wb = w.encode('utf-8')
        for pr in sorted({2 * nc, 2 * nb, nb}):
            out.append(dict(family='c09-explicit', src=enum(['#[logos(utf8 = false)]'], ['#[token(%s, priority = %d)] A,' % (rust_bytes(wb), pr)]), meta=dict(leaf=0, explicit=pr)))
    # several skips on one enum, each with its own default priority (plain, group form, with a callback), next to regexes
    for skips in [['[ \\t]+', '///[a-z ]*'], ['#', '--[a-z]*', '[ ]'], ['a', 'bb', 'ccc', 'dddd'], ['é+', '/[*][^*]*[*]/']]:
        for form in ('bare', 'group', 'mixed'):
            attrs = []
            for j, sp in enumerate(skips):
                if form == 'bare' or (form == 'mixed' and j % 2 == 0):
                    attrs.append('#[logos(skip %s)]' % rust_str(sp))
                elif form == 'group':
                    attrs.append('#[logos(skip(%s))]' % rust_str(sp))
                else:
                    attrs.append('#[logos(skip(%s, callback = |_| logos::Skip))]' % rust_str(sp))
            out.append(dict(family='c09-skips', src=enum(attrs, ['#[regex("[0-9]+")] N,', '#[token("zzzz")] Z,']),
                            meta=dict(complexity_leaves=list(range(len(skips) + 1)), token_leaf=len(skips) + 1, token_len=4,
                                      leaf_sources=[rust_str(sp) for sp in skips] + ['"[0-9]+"', '"zzzz"'])))
            out.append(dict(family='c09-skips', src=enum(['#[logos(%s)]' % ', '.join('skip %s' % rust_str(sp) for sp in skips)], ['#[regex("[0-9]+")] N,', '#[token("zzzz")] Z,']),
                            meta=dict(complexity_leaves=list(range(len(skips) + 1)), token_leaf=len(skips) + 1, token_len=4,
                                      leaf_sources=[rust_str(sp) for sp in skips] + ['"[0-9]+"', '"zzzz"'])))
    # "an explicit priority = n replaces the default": whatever its size, the explicit value takes part in the comparison as a number
    # (values around the limits of i32 / i64 / usize), on tokens, regexes and skips, declared before and after the competitor
    for pr in (1000, 2 ** 31 - 1, 2 ** 31, 2 ** 32, 2 ** 63 - 1, 2 ** 63, 9999999999999999999, 2 ** 64 - 1):
        for (a, b, text, nm) in [('#[token("ab", priority = %d)] Big,' % pr, '#[regex("[a-z]{2}")] Small,', 'ab', 'Big'),
                                 ('#[regex("[aeiou]+", priority = %d)] Big,' % pr, '#[regex("[a-z]+")] Small,', 'aei', 'Big'),
                                 ('#[regex("[0-9]+", priority = %d)] Big,' % pr, '#[regex("[0-9a-f]+", priority = %d)] Small,' % (pr - 1), '123', 'Big')]:
            for order in ((a, b), (b, a)):
                out.append(dict(family='c09-literal', src=enum([], list(order)), meta=dict(literal=text.encode('utf-8').hex(), lit_name=nm)))
    # "a literal token is never beaten on its own text by a regex with default priority: it wins or the derive reports an ambiguity"
    for w, rs in [('if', ['[a-z]+', 'i[a-z]', '..', '[a-z]{2}', 'if|else', '(?i)IF', 'i?f+', '\\w+', '[a-z]+(?-u:\\b)', 'if$']),
                  ('é', ['\\p{L}', '.', '[^a]', 'é+', '(?i)É']), ('==', ['=+', '[=!]=', '={2}', '==?']), ('中a', ['\\p{Han}[a-z]', '..', '[^ ]+']),
                  ('a.b', ['a.b', 'a\\.b', '[a-z.]+'])]:
        for r in rs:
            out.append(dict(family='c09-literal', src=enum([], ['#[token(%s)] Lit,' % rust_str(w), '#[regex(%s)] Re,' % rust_str(r)]),
                            meta=dict(literal=w.encode('utf-8').hex(), lit_name='Lit')))
            out.append(dict(family='c09-literal', src=enum([], ['#[regex(%s)] Re,' % rust_str(r), '#[token(%s)] Lit,' % rust_str(w)]),
                            meta=dict(literal=w.encode('utf-8').hex(), lit_name='Lit')))
    # the same consequence with two regexes of different default priorities next to the literal, in every order of the three
    # (the winner of a state is picked in one pass over the matching leaves, in leaf order)
    for w, rs in [('abc', ['[a-z]+', '[a-c][a-z]+', 'a[a-z]+', '(?i)A[a-z]+', 'ab.', '[a-z]{2,}', 'abc$']), ('==', ['=+', '[=!]=', '==?']),
                  ('é中', ['\\p{L}+', '.\\p{Han}', '[^a]+'])]:
        for r1, r2 in itertools.combinations(rs, 2):
            items = [('Lit', '#[token(%s)] Lit,' % rust_str(w)), ('R1', '#[regex(%s)] R1,' % rust_str(r1)), ('R2', '#[regex(%s)] R2,' % rust_str(r2))]
            for perm in itertools.permutations(items):
                out.append(dict(family='c09-literal', src=enum([], [x[1] for x in perm]), meta=dict(literal=w.encode('utf-8').hex(), lit_name='Lit')))
    return out


# ---------------------------------------------------------------------------------------------
# C18: permutations of named arguments / of #[logos(...)] items
# ---------------------------------------------------------------------------------------------
import itertools

NAMED = {
    'priority': ('priority = 7', ['i:priority', 'e', 'l:7']),
    'callback': ('callback = my_cb', ['i:callback', 'e', 'i:my_cb']),
    'ignore': ('ignore(case)', ['i:ignore', 'g:0']),
    'allow_greedy': ('allow_greedy = true', ['i:allow_greedy', 'e', 'i:true']),
}
MALFORMED = [
    ('priority = 1, priority = 2', ['i:priority', 'e', 'l:1', 'c', 'i:priority', 'e', 'l:2']),
    ('callback = a, callback = b', ['i:callback', 'e', 'i:a', 'c', 'i:callback', 'e', 'i:b']),
    ('allow_greedy = true, allow_greedy = false', ['i:allow_greedy', 'e', 'i:true', 'c', 'i:allow_greedy', 'e', 'i:false']),
    ('colour = 3', ['i:colour', 'e', 'l:3']),
    ('priority(3)', ['i:priority', 'g:1']),
    ('ignore = case', ['i:ignore', 'e', 'i:case']),
    ('priority = 3, my_cb', ['i:priority', 'e', 'l:3', 'c', 'i:my_cb']),
    ('my_cb, priority = 3', ['i:my_cb', 'c', 'i:priority', 'e', 'l:3']),
    ('callback "x"', ['i:callback', 'l:9']),
    ('type t u', ['i:type', 'i:t', 'i:u']),
    ('ignore(case) priority = 3', ['i:ignore', 'g:0', 'i:priority', 'e', 'l:3']),
    ('ignore(case),', ['i:ignore', 'g:0', 'c']),
    ('priority = 3,', ['i:priority', 'e', 'l:3', 'c']),
]


def fam_c18(R, n_sets):
    """returns cases with meta: group id (cases of one group must agree), abstract tokens for the model"""
    out = []
    names = list(NAMED)
    subsets = []
    for k in range(1, 5):
        for sub in itertools.combinations(names, k):
            subsets.append(sub)
    R.shuffle(subsets)
    gid = 0
    for sub in subsets[:n_sets]:
        for form in ('token', 'regex', 'skip'):
            if form == 'token' and 'allow_greedy' in sub:
                pass  # accepted by the parser for tokens too (the flag is simply unused)
            for positional in (False, True):
                if positional and 'callback' in sub:
                    continue
                lit = '"ab"' if form != 'regex' else '"a[b-c]+"'
                for perm in itertools.permutations(sub):
                    for trailing in (False, True):
                        parts = [NAMED[x][0] for x in perm]
                        toks = []
                        if positional:
                            parts = ['|lex| lex.slice().len()'] + parts
                            toks += ['p:124', 'i:lex', 'p:124', 'i:lex', 'p:46', 'i:slice', 'g:5', 'p:46', 'i:len', 'g:6', 'c']
                        for j, x in enumerate(perm):
                            toks += NAMED[x][1]
                            if j + 1 < len(perm):
                                toks.append('c')
                        body = ', '.join([lit] + parts) + (',' if trailing else '')
                        if trailing:
                            toks.append('c')
                        if form == 'skip':
                            src = enum(['#[logos(skip(%s))]' % body], ['#[token("zz")] Z,'])
                        else:
                            vt = 'A(usize)' if positional else 'A'
                            src = enum([], ['#[%s(%s)] %s,' % (form, body, vt)])
                        out.append(dict(family='c18-args', src=src,
                                        meta=dict(group=gid, perm=list(perm), tokens=toks, form=form, leaf=0,
                                                  expect=dict(prio='priority' in sub, cb=('callback' in sub) or positional,
                                                              ag='allow_greedy' in sub, ign='ignore' in sub))))
                gid += 1
    # callback values written as brace-less closures full of operator tokens (<, >, <<, ->, ::<>, &&): the value
    # extends to the next top-level comma whatever punctuation it contains
    def ptoks(text):
        toks = []
        for w in text.split(' '):
            if w.isidentifier():
                toks.append('i:' + w)
            elif w.isdigit():
                toks.append('l:' + w)
            else:
                toks += ['p:%d' % ord(ch) for ch in w]
        return toks
    CB_VALUES = ['| lex | lex . a < lex . b', '| lex | lex . n << 2', '| lex | lex . a < lex . b && lex . c > lex . d',
                 'conv :: < u32 >', '| lex | lex . a <= lex . b', '| lex | lex . a > lex . b', '| lex | lex . a - lex . b',
                 # the characters that open and close the parameter list, as operators in the body (one, two, three of them)
                 '| lex | lex . a | 1', '| lex | lex . a || lex . b', '| lex | lex . a | lex . b | lex . c', '| lex | lex . a & 1 ^ lex . b',
                 '| lex | lex . a % 2 == 0', '| lex | lex . a .. lex . b']
    for cbv in CB_VALUES:
        others = ['priority', 'ignore']
        for form in ('token', 'regex', 'skip'):
            lit = '"ab"' if form != 'regex' else '"a[b-c]+"'
            for perm in itertools.permutations(['cbv'] + others):
                for trailing in (False, True):
                    parts, toks = [], []
                    for j, x in enumerate(perm):
                        if x == 'cbv':
                            parts.append('callback = ' + cbv.replace(' ', ''))
                            toks += ['i:callback', 'e'] + ptoks(cbv)
                        else:
                            parts.append(NAMED[x][0])
                            toks += NAMED[x][1]
                        if j + 1 < len(perm):
                            toks.append('c')
                    body = ', '.join([lit] + parts) + (',' if trailing else '')
                    if trailing:
                        toks.append('c')
                    if form == 'skip':
                        src = enum(['#[logos(skip(%s))]' % body], ['#[token("zz")] Z,'])
                    else:
                        src = enum([], ['#[%s(%s)] A,' % (form, body)])
                    out.append(dict(family='c18-closure', src=src,
                                    meta=dict(group=gid, perm=list(perm), tokens=toks, form=form, leaf=0,
                                              expect=dict(prio=True, cb=True, ag=False, ign=True))))
            gid += 1
    # malformed argument lists: the model must predict the error classes of the real parser
    for (text, toks) in MALFORMED:
        for form in ('token', 'regex'):
            src = enum([], ['#[%s("ab", %s)] A,' % (form, text)])
            out.append(dict(family='c18-malformed', src=src, meta=dict(group=None, tokens=toks, form=form, leaf=0)))
    return out


LOGOS_ITEMS = ['skip(" +")', 'skip("x", priority = 9)', 'utf8 = false', 'error = MyErr', 'extras = MyExtras',
               'subpattern ab = "a|b"', 'skip("(?&ab)+q", priority = 3)', 'crate = logos', 'skip "\\t"', 'skip("k", ignore(case))']


def fam_c18_logos(R, n):
    out = []
    gid = 1000
    # enumerated: every item next to every other item of a different kind, in both orders (an item must not swallow or
    # drop what follows it in the same attribute)
    items = LOGOS_ITEMS + ['error(MyErr)', 'error(MyErr, callback = mk_err)', 'error(MyErr, mk_err)']
    def kind(it):
        return it.split('(')[0].split(' ')[0].split('=')[0].strip()
    for a in items:
        for b in items:
            if a >= b or (kind(a) == kind(b) and kind(a) != 'skip'):
                continue
            for perm in ((a, b), (b, a)):
                src = enum(['#[logos(%s)]' % ', '.join(perm)], ['#[regex("[a-z]+")] Id,', '#[token("=")] Eq,'])
                out.append(dict(family='c18-logos-pairs', src=src, meta=dict(group=gid, perm=list(perm))))
            gid += 1
    # two skip items with the same literal that differ in priority / callback / spelling: both orders must end the same way
    for (a, b) in [('skip("x+", priority = 1, callback = |_| logos::Skip)', 'skip "x+"'), ('skip("x+", callback = |_| logos::Skip)', 'skip "x+"'), ('skip("x+")', 'skip "x+"'),
                   ('skip("x+", priority = 9)', 'skip "x+"'), ('skip("x+", priority = 1)', 'skip("x+", priority = 2)'), ('skip("k", ignore(case))', 'skip "k"'),
                   ('skip "\\n"', 'skip("\\n", priority = 1, callback = |_| logos::Skip)')]:
        for perm in ((a, b), (b, a)):
            src = enum(['#[logos(%s)]' % ', '.join(perm)], ['#[regex("[a-z]+")] Id,', '#[token("=")] Eq,'])
            out.append(dict(family='c18-logos-pairs', src=src, meta=dict(group=gid, perm=list(perm))))
        gid += 1
    # single-valued items given twice with different values: both orders must end the same way
    for (a, b) in [('crate = logos', 'crate = ::logos'), ('crate = logos', 'crate = not_a_crate'), ('extras = MyExtras', 'extras = u8'), ('error = MyErr', 'error = OtherErr'),
                   ('utf8 = true', 'utf8 = false'), ('error = MyErr', 'error(OtherErr)'), ('subpattern ab = "a"', 'subpattern ab = "b"'),
                   # one of the two spells out the default value
                   ('extras = ()', 'extras = MyExtras'), ('extras = ()', 'extras = ()'), ('error = ()', 'error = MyErr'), ('utf8 = true', 'utf8 = true'),
                   ('crate = ::logos', 'crate = ::logos'), ('crate = ::logos', 'crate = not_a_crate')]:
        for perm in ((a, b), (b, a)):
            src = enum(['#[logos(%s)]' % ', '.join(perm)], ['#[regex("[a-z]+")] Id,', '#[token("=")] Eq,'])
            out.append(dict(family='c18-logos-dups', src=src, meta=dict(group=gid, perm=list(perm), exact=True)))
        gid += 1
    # items that refer to the enum's generic parameters (lifetime, type): no item moves a leaf, so every order must give the very same code
    generic = [("pub enum T<X>", ['lifetime = none', "type X = &'static str"], ['#[token("fizz", |_| "fizz")] Value(X),']),
               ("pub enum T<'a, X>", ["lifetime = 'a", "type X = &'a str"], ['#[regex("[a-z]+")] Id(X),', '#[token("=")] Eq,']),
               ("pub enum T<'a, X>", ["lifetime = 'a", "type X = Option<&'a str>", 'extras = u8'], ['#[regex("[a-z]+", |lex| Some(lex.slice()))] Id(X),', '#[token("=")] Eq,']),
               ("pub enum T<'s, 'b>", ["lifetime = 's", "extras = &'b u8", 'utf8 = true'], ['#[regex("[a-z]+")] Id(&\'s str),', '#[token("=")] Eq(core::marker::PhantomData<&\'b ()>),']),
               ("pub enum T<X, Y>", ['type X = u8', 'type Y = u16', 'lifetime = none'], ['#[token("a", |_| 1u8)] A(X),', '#[token("b", |_| 2u16)] B(Y),'])]
    for (head, items_, variants) in generic:
        for perm in itertools.permutations(items_):
            src = '\n'.join([HDR, '#[logos(%s)]' % ', '.join(perm), head + ' {'] + ['    ' + v for v in variants] + ['}'])
            out.append(dict(family='c18-logos-generic', src=src, meta=dict(group=gid, perm=list(perm), exact=True)))
        gid += 1
    # items whose meaning depends on another item of the same attribute: the lexer mode and byte-level subpatterns / skips,
    # a skip that refers to a subpattern; every order that keeps a subpattern before its use
    inter = ['utf8 = false', 'subpattern hi = b"[\\x80-\\xFF]"', 'skip(b"\\xFE+")', 'skip("(?&hi)+x")']
    for sub in ([0, 1], [0, 2], [0, 1, 3], [0, 1, 2], [0, 1, 2, 3]):
        its = [inter[j] for j in sub]
        first = True
        for perm in itertools.permutations(its):
            if 'skip("(?&hi)+x")' in perm and perm.index('skip("(?&hi)+x")') < perm.index(inter[1]):
                continue
            src = enum(['#[logos(%s)]' % ', '.join(perm)], ['#[regex("[a-z]+")] Id,', '#[token("=")] Eq,'])
            out.append(dict(family='c18-logos', src=src, meta=dict(group=gid, perm=list(perm))))
        gid += 1
    # subpatterns whose names are prefixes of each other (hex / hexdigits, a / ab / abc), each with its own dependencies: every order
    # that keeps a subpattern before its use
    for (subs, uses) in [([('hexdigits', '[0-9a-f]+', []), ('escape', '\\\\x(?&hexdigits)', ['hexdigits']), ('prefix', '0x', []), ('hex', '(?&prefix)[0-9a-f]', ['prefix'])],
                          '(?&escape)|(?&hex)'),
                         ([('a', 'x', []), ('ab', '(?&a)y', ['a']), ('abc', '(?&ab)z', ['ab']), ('b', 'w', [])], '(?&abc)(?&b)(?&a)')]:
        names = [n for n, _, _ in subs]
        for perm in itertools.permutations(subs):
            pos = {n: k for k, (n, _, _) in enumerate(perm)}
            if any(pos[d] > pos[n] for (n, _, deps) in perm for d in deps):
                continue
            items = ['subpattern %s = %s' % (n, rust_str(p_)) for (n, p_, _) in perm]
            src = enum(['#[logos(%s)]' % ', '.join(items)], ['#[regex(%s)] U,' % rust_str(uses), '#[token("=")] Eq,'])
            out.append(dict(family='c18-logos-overlap', src=src, meta=dict(group=gid, perm=items)))
        gid += 1
    # three or four skip items matching the same text with different (and partly equal) priorities: the order of the items is the
    # order of the leaves, which no decision may depend on (the winner and the ambiguity verdict of a DFA state)
    for its in [['skip("[ ]", priority = 1)', 'skip("[ \\t]", priority = 1)', 'skip("\\s", priority = 3)'],
                ['skip("a", priority = 2)', 'skip("[ab]", priority = 5)', 'skip("[a-c]", priority = 2)'],
                ['skip("x+", priority = 3)', 'skip("x", priority = 1)', 'skip("xx?", priority = 2)'],
                ['skip("y", priority = 4)', 'skip("y|z", priority = 4)', 'skip("[yw]", priority = 1)'],
                ['skip("q", priority = 1)', 'skip("[qr]", priority = 1)', 'skip("[q-s]", priority = 2)', 'skip("[q-t]", priority = 7)']]:
        for perm in itertools.permutations(its):
            src = enum(['#[logos(%s)]' % ', '.join(perm)], ['#[regex("[0-9]+")] Num,', '#[token("=")] Eq,'])
            out.append(dict(family='c18-logos-overlap', src=src, meta=dict(group=gid, perm=list(perm))))
        gid += 1
    for i in range(n):
        k = R.choice([2, 3, 3, 4])
        items = R.sample(LOGOS_ITEMS, k)
        perms = list(itertools.permutations(items))
        R.shuffle(perms)
        for perm in [tuple(items)] + perms[:5]:
            src = enum(['#[logos(%s)]' % ', '.join(perm)], ['#[regex("[a-z]+")] Id,', '#[token("=")] Eq,'])
            out.append(dict(family='c18-logos', src=src, meta=dict(group=gid, perm=list(perm))))
        gid += 1
    return out


# ---------------------------------------------------------------------------------------------
# C17: enum sources for strip_attributes / logos-cli
# ---------------------------------------------------------------------------------------------
DERIVES = ['Logos', 'Debug', 'Clone', 'PartialEq', 'Eq', 'Copy', 'Hash', 'logos::Logos', '::logos::Logos', 'serde::Serialize',
           '::core::fmt::Debug', 'std::cmp::PartialOrd', 'my::Logos']
ENUM_ATTRS = ['#[repr(u8)]', '#[allow(dead_code)]', '/// A token.', '#[cfg_attr(test, derive(Default))]', '#[non_exhaustive]',
              '#[logos(skip " +")]', '#[logos(extras = u32)]', '#[cfg_attr(feature = "x", logos(skip "y"))]', '#[doc = "hi"]',
              # other crates' attributes whose path ends in a helper attribute's name are not logos's to remove
              '#[grammar::token(kind = "arith")]', '#[highlight::regex]', '#[other::logos(skip)]', '#[::token]', '#[my::lexer::regex("x")]']
VAR_ATTRS = ['/// doc comment', '#[allow(unused)]', '#[cfg(test)]', '#[default]', '#[doc(hidden)]', '#[grammar::token(kind = "v")]', '#[highlight::regex]',
             '#[serde::logos]', '#[::regex("q")]']
FIELD_ATTRS = ['#[allow(unused)]', '#[cfg(test)]', '#[grammar::token]', '#[x::regex("f")]', '#[y::logos]']


def fam_c17(R, n):
    out = []
    fixed = ['#[derive(Debug, logos::Logos, Clone)]', '#[derive(Logos)]', '#[derive(::logos::Logos, Debug,)]', '#[derive(Debug)]\n#[derive(Logos, Clone)]',
             '#[derive(Debug, Logos, )]', '#[derive(serde::Serialize, Logos, serde::Deserialize)]',
             # a comma directly followed by `::` (the comma token then has `Joint` spacing)
             '#[derive(Debug,::logos::Logos)]', '#[derive(::logos::Logos,::core::fmt::Debug)]', '#[derive(Debug,::logos::Logos,Clone)]',
             '#[derive(Clone,::core::fmt::Debug,Logos)]', '#[derive(Logos,::core::clone::Clone ,::core::fmt::Debug)]']
    SEPS = [', ', ', ', ',', ' ,', ' , ', ',\n    ']
    def join(ds):
        return ''.join(d + (R.choice(SEPS) if k_ + 1 < len(ds) else '') for k_, d in enumerate(ds))
    # a definition whose generated code has more than one look-up table (round 29: constants emitted in another order by
    # another process are another output; `--check` after a write has to succeed)
    big = ['#[regex("%s+%s")] V%d,' % (c, chr(ord('A') + k), k) for k, c in enumerate(['[a-c]', '[d-f]', '[g-i]', '[j-l]', '[m-o]', '[p-r]', '[s-u]', '[v-x]', '[0-2]', '[3-5]', '[6-8]', '[!-#]'])]
    out.append(dict(family='c17-luts', src='#[derive(Logos, Debug)]\npub enum Big {\n    %s\n}' % '\n    '.join(big), meta=dict()))
    for i in range(n):
        if i < len(fixed):
            dl = [fixed[i]]
        else:
            k = R.choice([1, 2, 3, 4])
            ds = R.sample(DERIVES, k)
            if not any(d.endswith('Logos') for d in ds):
                ds.insert(R.randrange(len(ds) + 1), R.choice(['Logos', 'logos::Logos']))
            if R.random() < 0.3:
                cut = R.randrange(1, len(ds)) if len(ds) > 1 else 1
                dl = ['#[derive(%s)]' % join(ds[:cut]), '#[derive(%s)]' % join(ds[cut:])] if ds[cut:] else ['#[derive(%s)]' % join(ds)]
            else:
                dl = ['#[derive(%s%s)]' % (join(ds), ',' if R.random() < 0.2 else '')]
        attrs = dl + R.sample(ENUM_ATTRS, R.choice([0, 1, 2, 3]))
        R.shuffle(attrs)
        vs = []
        nv = R.choice([1, 2, 3, 4])
        for j in range(nv):
            va = R.sample(VAR_ATTRS, R.choice([0, 0, 1, 2]))
            la = R.choice(['#[token("t%d")]' % j, '#[regex("r%d+")]' % j, '#[token("u%d")]\n#[regex("v%d")]' % (j, j), ''])
            parts = va + ([la] if la else [])
            R.shuffle(parts)
            if R.random() < 0.25:
                fa = R.choice(FIELD_ATTRS + ['']) 
                body = 'V%d(%s &\'static str)' % (j, fa) if False else 'V%d(%s u32)' % (j, fa)
                if la:
                    parts = [p.replace(')]', ', |_| 0u32)]') if p.startswith(('#[token', '#[regex')) and '\n' not in p else p for p in parts]
            else:
                body = 'V%d' % j
            vs.append('\n    '.join(parts + [body + ',']))
        src = '\n'.join(attrs + ['pub enum T%d {' % i] + ['    ' + v for v in vs] + ['}'])
        out.append(dict(family='c17', src=src, meta={}))
    # enumerated: every attribute of the pools at every level (enum, variant, field) next to real helper attributes
    for k, dl in enumerate(['#[derive(Logos, Debug)]', '#[derive(Debug, logos::Logos)]']):
        vs = []
        for j, va in enumerate(VAR_ATTRS):
            fa = FIELD_ATTRS[j % len(FIELD_ATTRS)]
            vs.append('%s\n    #[token("w%d", |_| 0u32)]\n    W%d(%s u32),' % (va, j, j, fa))
        for j, fa in enumerate(FIELD_ATTRS):
            vs.append('#[regex("f%d+", |_| 0u32)]\n    F%d(%s u32),' % (j, j, fa))
        src = '\n'.join([dl] + ENUM_ATTRS + ['pub enum TA%d {' % k] + ['    ' + v for v in vs] + ['}'])
        out.append(dict(family='c17-all-attrs', src=src, meta={}))
    # every part of an enum item other than attributes has to come through unchanged: visibility, generics with bounds and
    # defaults, where clauses, discriminants, raw identifiers, field visibility, a missing trailing comma
    headers = [('enum P0', ''), ('pub(crate) enum P1', ''), ('pub(in crate::lexer) enum P2', ''), ("pub enum P3<'a>", ''), ("pub enum P4<'s, T: Copy + Default>", ''),
               ('pub enum P5<T>', 'where T: Copy + Default,'), ("pub enum P6<'a, 'b: 'a, T = u32>", "where T: 'a + Clone, &'b T: Sized"),
               ('pub enum P7<T, U>', 'where\n    T: Into<u32>,\n    U: core::fmt::Debug'), ('pub enum r#P8', '')]
    for k, (head, where) in enumerate(headers):
        gen = []
        if '<' in head:
            if "'a" in head:
                gen.append("lifetime = 'a")
            if "'s" in head:
                gen.append("lifetime = 's")
            if 'T' in head.split('<', 1)[1]:
                gen.append('type T = u32')
            if 'U' in head.split('<', 1)[1]:
                gen.append('type U = u8')
        attrs = ['#[derive(Debug, Logos, Clone)]'] + (['#[logos(%s)]' % ', '.join(gen)] if gen else []) + ['#[repr(u8)]' if k == 0 else '#[allow(dead_code)]']
        vs = ['#[token("a")]\n    A = 1,' if k == 0 else '#[token("a")]\n    A,', '/// doc\n    #[regex("b+")]\n    r#B,' if k % 2 else '#[regex("b+")]\n    B,',
              '#[token("c", |_| 0u32)]\n    C(pub(crate) u32)' + ('' if k % 3 == 0 else ',')]
        src = '\n'.join(attrs + [head + (' ' + where if where and '\n' not in where else '')] + ([where] if '\n' in where else []) + ['{'] + ['    ' + v for v in vs] + ['}'])
        out.append(dict(family='c17-headers', src=src, meta={}))
    # field types that mention the parameters of the enum: the derive rewrites such types for its own use (lifetimes to the
    # source lifetime, type parameters to their concrete types); the enum that comes out must keep them as written
    for k, (head, items, fields) in enumerate([
            ("pub enum Q0<'a>", [], ["&'a str", "Option<&'a str>"]),
            ("pub enum Q1<'a>", ["lifetime = 'a"], ["&'a str", "(&'a str, u8)"]),
            ("pub enum Q2<'x>", [], ["&'x [u8]", "core::marker::PhantomData<&'x ()>"]),
            ('pub enum Q3<T>', ['type T = u32'], ['T', 'Vec<T>']),
            ("pub enum Q4<'a, T>", ["type T = &'a str"], ['T', "&'a T", 'Option<[T; 2]>']),
            ("pub enum Q5<'a, T, U>", ["lifetime = 'a", 'type T = u8', 'type U = Vec<T>'], ['U', "(T, &'a U)", 'fn(T) -> U']),
            ('pub enum Q6', [], ['&str', "&'static str", 'Box<dyn Fn(&str) -> u8>']),
            ("pub enum Q7<'s>", [], ["&'s str", "std::borrow::Cow<'s, str>"])]):
        attrs = ['#[derive(Debug, Logos)]'] + (['#[logos(%s)]' % ', '.join(items)] if items else [])
        vs = ['#[token("a")]\n    A,'] + ['#[regex("%s+", |_| todo!())]\n    F%d(%s),' % ('bcdefg'[j], j, f) for j, f in enumerate(fields)]
        src = '\n'.join(attrs + [head + ' {'] + ['    ' + v for v in vs] + ['}'])
        out.append(dict(family='c17-field-types', src=src, meta={}))
    # an output that contains U+FFFD itself (what a lossy decoder substitutes for bytes that are not UTF-8)
    out.append(dict(family='c17-replacement-char', meta={}, src='#[derive(Debug, Logos)]\n/// a replacement character: \ufffd (twice: \ufffd)\npub enum R0 {\n    #[token("a")]\n    A,\n    #[regex("b+")]\n    B,\n}'))
    return out


# ---------------------------------------------------------------------------------------------
# C19: malformed stream.  expect: 'reject' (must produce compile_error, optionally of a class),
# 'accept' (must be accepted and compile), 'any' (only: must not panic)
# ---------------------------------------------------------------------------------------------
def fam_c19(R, n_random):
    E = []

    def add(src, expect, cls=None, note=''):
        E.append(dict(family='c19', src=src, meta=dict(expect=expect, cls=cls, note=note)))
    H = HDR
    # variant shapes
    add(enum([], ['#[token("a")] A(),']), 'reject', 'variant_shape', 'empty tuple variant')
    add(enum([], ['#[token("a")] A(u8, u8),']), 'reject', 'variant_shape')
    add(enum([], ['#[token("a")] A { x: u8 },']), 'reject', 'variant_shape')
    add(enum([], ['#[token("a", |_| 1u8)] A(u8),']), 'accept')
    add(enum([], ['A(),', '#[token("b")] B,']), 'any', None, 'empty tuple variant without attribute')
    add(enum([], ['A { },', '#[token("b")] B,']), 'any')
    add(enum([], ['#[regex("a")] #[token("b")] A(u8, u16, u32),']), 'reject', 'variant_shape')
    # malformed attributes
    for a in ['#[token]', '#[token()]', '#[token(3)]', '#[token(foo)]', '#[token("a" "b")]', '#[token("a", )]', '#[token("a",,)]', '#[token(,"a")]',
              '#[regex("(")]', '#[regex("a", "b")]', '#[regex("a", foo, bar)]', '#[regex = "a"]', '#[regex("[")]', '#[regex("a{2,1}")]',
              '#[token("a", priority = x)]', '#[token("a", priority = -1)]', '#[token("a", priority = 99999999999999999999999)]',
              '#[token("a", callback = )]', '#[token("a", callback = |a, b| 1)]', '#[token("a", |lex|)]', '#[token("a", ||)]',
              # (round 29) a brace group as the whole body of a closure can hold anything; a keyword as the parameter
              '#[token("a", |lex| { lex.slice().len() + })]', '#[token("a", |lex| { let })]', '#[token("a", |lex| { = = })]', '#[token("a", |match| { 0; })]',
              '#[token("a", callback = |lex| { let })]', '#[token("a", |lex| { ) })]', '#[regex("a+", |lex| { fn })]', '#[token("a", |lex| -> bool { true })]',
              '#[token("a", ignore())]', '#[token("a", ignore(case, ))]', '#[token("a", ignore(case case))]', '#[token("a", ignore(ascii_case))]',
              '#[token("a", ignore(wat))]', '#[token("a", ignore = case)]', '#[token("a", allow_greedy = maybe)]', '#[token(b"a\\xff")]',
              '#[token(\'a\')]', '#[token(1.5)]', '#[token(r#"a"#)]', '#[token(br"a")]', '#[error]', '#[token("a")] #[error]']:
        add(enum([], ['%s A,' % a]), 'any', None, 'malformed attribute')
    # duplicated callbacks (Span::join on stable)
    add(enum([], ['#[regex("a", foo, callback = bar)] A,']), 'reject', None, 'positional and named callback')
    add(enum([], ['#[regex("a", callback = foo, callback = bar)] A,']), 'reject', None, 'callback twice')
    add(enum(['#[logos(error(E, callback = a, callback = b))]'], ['#[token("a")] A,']), 'reject', None, 'error callback twice')
    add(enum(['#[logos(error(E, foo, callback = b))]'], ['#[token("a")] A,']), 'reject', None, 'error callback twice (positional)')
    add(enum(['#[logos(skip("a", foo, callback = bar))]'], ['#[token("b")] B,']), 'reject', None, 'skip callback twice')
    # #[logos(...)] shapes
    for a in ['#[logos]', '#[logos = 3]', '#[logos()]', '#[logos(,)]', '#[logos(extras = A, extras = B)]', '#[logos(utf8 = maybe)]', '#[logos(utf8 = true, utf8 = false)]',
              '#[logos(skip)]', '#[logos(skip = "a")]', '#[logos(skip 3)]', '#[logos(subpattern = "a")]', '#[logos(subpattern x)]', '#[logos(subpattern x = 3)]',
              '#[logos(subpattern x = "a", subpattern x = "b")]', '#[logos(type T = u8)]', '#[logos(type T)]', '#[logos(lifetime = \'a, lifetime = \'b)]',
              '#[logos(error = A, error = B)]', '#[logos(error())]', '#[logos(error(A B))]', '#[logos(error(A, 3))]', '#[logos(crate)]', '#[logos(crate = )]',
              '#[logos(source = str)]', '#[logos(export_dir = 3)]', '#[logos(wat)]', '#[logos("x")]', '#[logos(skip("a", priority = ))]', '#[logos(skip(3))]',
              '#[logos(subpattern a-b = "x")]', '#[logos(subpattern x = "(")]', '#[logos(subpattern x = "(?&x)")]', '#[logos(extras)]', '#[logos(utf8)]']:
        add(enum([a], ['#[token("a")] A,']), 'any', None, 'malformed logos attribute')
    # generics
    add(H + '\npub enum T<const N: usize> { #[token("a")] A, }', 'reject')
    add(H + '\npub enum T<\'a, \'b> { #[regex("a")] A(&\'a str), #[regex("b")] B(&\'b str), }', 'any')
    add(H + '\npub enum T<X> { #[regex("a", |_| todo!())] A(X), }', 'any')
    add(H + '\npub enum T { }', 'any', None, 'no variants')
    add(H + '\n#[logos(skip "a")]\npub enum T { }', 'any', None, 'only skips')
    # legal definitions none of whose patterns can ever match (empty classes, contradictory assertions): the lexer is
    # useless but the derive must not panic
    for ps in [['[^\\s\\S]'], ['[a-c&&x-z]+'], ['a(?-u:\\b)b'], ['let$x'], ['[^\\s\\S]', 'a(?-u:\\b)b'], ['a(?-u:\\B)-', 'x$y']]:
        add(enum([], ['#[regex(%s)] V%d,' % (rust_str(p_), k) for k, p_ in enumerate(ps)]), 'any', None, 'every pattern unmatchable')
    add(enum(['#[logos(skip "[^\\s\\S]")]'], ['#[regex("a(?-u:\\b)b")] A,']), 'any', None, 'every pattern unmatchable (skip + regex)')
    add(enum(['#[logos(utf8 = false)]'], ['#[regex(b"a\\bb")] A,']), 'any', None, 'every pattern unmatchable (bytes)')
    # patterns that cannot be implemented
    for p in ['a*', '(a|)', '', 'a?', '(a*)*', 'a{0,3}', '(?:)', 'b*|a']:
        add(enum([], ['#[regex(%s)] A,' % rust_str(p)]), 'reject', 'empty', 'nullable')
    add(enum(['#[logos(skip "a*")]'], ['#[token("b")] B,']), 'reject', 'empty')
    # ... also when an explicit priority is given
    for p in ['[0-9a-f]*', 'a?', '(x|)']:
        add(enum([], ['#[regex(%s, priority = 3)] A,' % rust_str(p)]), 'reject', 'empty', 'nullable with explicit priority')
    add(enum(['#[logos(skip("[ \\t]*", priority = 3))]'], ['#[token("b")] B,']), 'reject', 'empty', 'nullable skip with explicit priority')
    add(enum([], ['#[token("", priority = 2)] A,', '#[token("b")] B,']), 'reject', 'empty', 'empty token with explicit priority')
    add(enum([], ['#[token("")] A,']), 'reject', 'empty')
    for p in ['(?-u:\\b)a', '^a', '(?m:^)a', '(?-u:\\B)a', '\\ba', 'a|^b', '$', '(?-u:\\b)', 'a*$']:
        add(enum([], ['#[regex(%s)] A,' % rust_str(p)]), 'reject', None, 'look-behind at token start')
    # ... reached only through something optional (regex-syntax's prefix look set stops at the first item that can be non-empty)
    for p in ['(?-u)-?\\b[0-9]+', '(?:x|)^a', 'a?(?-u:\\B)b', '(?:-|\\+)?(?m:^)x', '[ ]*(?-u:\\b)w', '(?:a|(?-u:\\b))b', 'x{0,2}^y', '(?-u)(?:ab)*\\bc', '(?-u)q??\\b{start}r']:
        add(enum([], ['#[regex(%s)] A,' % rust_str(p)]), 'reject', None, 'look-behind at token start behind an optional prefix')
        add(enum([], ['#[regex(%s)] A,' % rust_str(p), '#[token("zz")] Z,']), 'reject', None, 'look-behind at token start behind an optional prefix, second leaf')
    for p in ['(?=a)b', 'a(?!b)', '(a)\\1', '(?<=a)b', '\\p{Nope}', '(?P<n>a)(?P=n)']:
        add(enum([], ['#[regex(%s)] A,' % rust_str(p)]), 'reject', None, 'unsupported regex feature')
    # Unicode word-boundary assertions (every kind, after / between / in a subpattern / in a skip): the DFA cannot implement them
    for look in ['\\b', '\\B', '\\b{start}', '\\b{end}', '\\b{start-half}', '\\b{end-half}', '\\<', '\\>']:
        for shape in ['[a-z]+%s', 'a%sb', 'a%s-', 'x|a%s', '(a%s)+z']:
            add(enum([], ['#[regex(%s)] A,' % rust_str(shape % look)]), 'reject', None, 'unsupported regex feature (Unicode word boundary)')
        add(enum(['#[logos(subpattern wb = %s)]' % rust_str('a' + look)], ['#[regex("(?&wb)c?")] A,']), 'reject', None, 'unsupported regex feature (Unicode word boundary in a subpattern)')
        add(enum(['#[logos(skip(%s))]' % rust_str('q+' + look)], ['#[token("b")] B,']), 'reject', None, 'unsupported regex feature (Unicode word boundary in a skip)')
    add(enum([], ['#[regex("a{1001}{1001}{1001}")] A,']), 'reject', None, 'huge repetition (resource exhaustion)')
    # repetition counts whose product does not fit into a usize: the default priority is computed before anything could refuse the pattern
    add(enum([], ['#[regex("(a{4294967295}){4294967295}")] A,']), 'reject', None, 'repetition counts whose product overflows usize (resource exhaustion)')
    add(enum([], ['#[regex("(a{4294967295}){4294967295}b")] A,']), 'reject', None, 'repetition counts whose product overflows usize, in a sequence (resource exhaustion)')
    # `type` items defined in terms of their own parameter, directly or through another one: substituting them never ends
    # (run in a process of their own like the resource exhaustion case); a nested but acyclic one must simply not crash
    gen = lambda items, head, variants: '\n'.join([HDR, '#[logos(%s)]' % ', '.join(items), head + ' {'] + ['    ' + v for v in variants] + ['}'])
    add(gen(['type T = Vec<T>'], 'pub enum T0<T>', ['#[token("a", |_| Vec::new())] A(T),']), 'reject', None, 'type item referring to its own parameter (resource exhaustion)')
    add(gen(['type T = Vec<U>', 'type U = Option<T>'], 'pub enum T0<T, U>', ['#[token("a", |_| Vec::new())] A(T),', '#[token("b", |_| None)] B(U),']), 'reject', None,
        'type items referring to each other (resource exhaustion)')
    add(gen(['type T = Option<&\'static T>'], 'pub enum T0<T>', ['#[token("a", |_| None)] A(T),']), 'reject', None, 'type item referring to its own parameter behind a reference (resource exhaustion)')
    add(gen(['type T = Vec<U>', 'type U = u8'], 'pub enum T0<T, U>', ['#[token("a", |_| Vec::new())] A(T),', '#[token("b", |_| 0u8)] B(U),']), 'any', None,
        'type item referring to another, acyclic (resource exhaustion)')
    for p in ['(?&nope)', 'a(?&b)']:
        add(enum([], ['#[regex(%s)] A,' % rust_str(p)]), 'reject', 'undef_subpattern')
    # operators made of the characters the argument splitter looks at (`<`, `>`, `=`, `-`, `|`, `,`), outside any group: comparisons,
    # shifts, arrows, turbofish, generic types as values - valid definitions, to be accepted and to compile
    for cbk in ['|lex| lex.slice().len() > 3', '|lex| lex.slice().len() >= 3', '|lex| lex.slice().len() >> 1 == 0', '|lex| 3 < lex.slice().len()',
                '|lex| 1 < 2 && lex.slice().len() > 2', '|lex| lex.slice().len() as i64 - 1 > -1', '|lex| lex.slice().parse::<u8>().is_ok()',
                '|lex| lex.slice().len() <= 3 || lex.slice().len() >= 7', '|lex| !lex.slice().is_empty() == true', '|lex| lex.slice().len() << 1 > 2',
                '|lex| (|a: usize, b: usize| a > b)(lex.slice().len(), 2)']:
        add(enum([], ['#[regex("[0-9]+", %s)] A,' % cbk, '#[token("b", callback = %s, priority = 9)] B,' % cbk]), 'accept', None, 'operators outside groups in a callback')
    add(enum(['#[logos(extras = Vec<u8>)]'], ['#[token("a")] A,']), 'accept', None, 'generic type as a value')
    add(enum(['#[logos(extras = Option<Box<u8>>, skip " ")]'], ['#[token("a")] A,']), 'accept', None, 'nested generic type as a value (`>>`)')
    add(enum(['#[logos(error = Option<u8>)]'], ['#[token("a")] A,']), 'accept', None, 'generic type as a value')
    add(enum(["#[logos(extras = fn(u8) -> u8)]"], ['#[token("a")] A,']), 'any', None, 'arrow in a value')
    # an argument left empty (a stray comma): a diagnostic, never an implementation made of the stray tokens
    for a in ['#[token("a",,)]', '#[regex("x", , priority = 3)]', '#[regex("x", priority = 3, , )]', '#[token("a", , )]', '#[regex("x", |_| (), , priority = 3)]',
              '#[regex("x", priority = 3,, callback = |_| ())]']:
        add(enum([], ['%s A,' % a]), 'reject', None, 'empty argument')
    add(enum(['#[logos(skip " ", , utf8 = true)]'], ['#[token("a")] A,']), 'reject', None, 'empty item')
    # blanks between tokens mean nothing: the same definition written without blanks around `=` and after `,` (the `=` or `,`
    # is then directly followed by punctuation: `callback=|lex| ..`, `extras=&'static str`, `priority=-1`, `"a",|lex| ..`)
    # gets the same verdict and the same implementation
    def tight(s_):
        return s_.replace(' = ', '=').replace(', ', ',').replace('| ', '|')
    for attrs, variants, head in [
            ([], ['#[regex("[0-9]+", callback = |lex| lex.slice().len())] A(usize),'], None),
            ([], ['#[regex("[0-9]+", |lex| lex.slice().len(), priority = 3)] A(usize),'], None),
            ([], ['#[token("a", priority = -1)] A,'], None),
            ([], ['#[token("a", priority = 3, callback = ::core::mem::drop)] A,'], None),
            ([], ['#[regex("a+", callback = |_| (), priority = 3)] A,', '#[token("b", ignore(case), callback = |_| ())] B,'], None),
            (["#[logos(extras = &'static str)]"], ['#[token("a")] A,'], None),
            (["#[logos(skip \" \", extras = &'static str, utf8 = true)]"], ['#[token("a")] A,'], None),
            (["#[logos(error = &'static str)]"], ['#[token("a")] A,'], None),
            (['#[logos(error(u8, callback = |_| 1u8))]'], ['#[token("a")] A,'], None),
            (['#[logos(error(u8, |_| 1u8))]'], ['#[token("a")] A,'], None),
            (["#[logos(type X = &'static str, lifetime = none)]"], ['#[token("a", |_| "")] A(X),'], 'pub enum T<X>'),
            (["#[logos(lifetime = 'a, type X = &'a str)]"], ['#[regex("a+")] A(X),'], "pub enum T<'a, X>"),
            (['#[logos(subpattern d = "[0-9]", skip " ")]'], ['#[regex("(?&d)+", callback = |lex| lex.slice().len())] A(usize),'], None),
            (['#[logos(crate = ::logos)]'], ['#[token("a")] A,'], None),
            # a closure whose body begins with punctuation (the closing `|` of the parameter list is then directly followed by it)
            ([], ['#[regex("[0-9]+", |lex| -(lex.slice().len() as i64))] A(i64),'], None),
            ([], ['#[regex("[a-z]+", |lex| !lex.slice().is_empty())] A(bool),'], None),
            ([], ['#[regex("[a-z]+", callback = |lex| &lex.slice()[1..], priority = 3)] A(&\'s str),'], "pub enum T<'s>"),
            (['#[logos(extras = u8)]'], ['#[regex("[a-z]+", |lex| *&lex.extras)] A(u8),'], None),
            (['#[logos(error(i8, callback = |_| -1i8))]'], ['#[token("a")] A,'], None)]:
        src = enum(attrs, variants)
        if head:
            src = src.replace('pub enum T', head)
        E.append(dict(family='c19', src=src, meta=dict(expect='any', cls=None, note='blanks: spaced form', pair=len(E) + 1)))
        E.append(dict(family='c19', src=tight(src), meta=dict(expect='any', cls=None, note='blanks: tight form', pair=len(E) - 1)))
    # diagnostics that quote long user text with characters of every UTF-8 width, at every alignment (0-3 ASCII bytes of
    # padding in front): the pattern, a subpattern name, an unknown item or argument; whatever is done to the text of a
    # message (clipping, wrapping, escaping) must not fall between the bytes of a character
    for pad in range(4):
        for wide in ('語', 'é', '😀'):
            long_ = 'x' * pad + wide * 400
            add(enum([], ['#[regex(%s)] A,' % rust_str('(%s)*' % long_)]), 'reject', None, 'long diagnostic: pattern that can match the empty string')
            add(enum([], ['#[regex(%s)] A,' % rust_str('(' + long_)]), 'reject', None, 'long diagnostic: regex syntax error')
            add(enum([], ['#[regex(%s)] A,' % rust_str('a(?&%s)' % long_)]), 'reject', None, 'long diagnostic: undefined subpattern')
            add(enum([], ['#[regex(%s)] A,' % rust_str(long_ + '.*')]), 'reject', None, 'long diagnostic: greedy dot')
            if wide != '😀':
                add(enum(['#[logos(%s)]' % long_], ['#[token("a")] A,']), 'reject', None, 'long diagnostic: unknown item')
                add(enum([], ['#[token("a", %s = 3)] A,' % long_]), 'reject', None, 'long diagnostic: unknown argument')
                add(enum(['#[logos(subpattern %s = "a", subpattern %s = "b")]' % (long_, long_)], ['#[regex("(?&%s)c")] A,' % long_]), 'any', None, 'long diagnostic: subpattern defined twice')
            add(enum([], ['#[token(%s)] A,' % rust_str(long_), '#[token(%s)] B,' % rust_str(long_)]), 'reject', None, 'long diagnostic: two tokens with the same text')
    # byte-string literals around the ASCII / non-ASCII border, through every path that turns the literal into regex text
    # (case-insensitive token, regex, skip, subpattern): accepted, no panic
    for bv in (0x00, 0x7f, 0x80, 0x81, 0xbf, 0xc2, 0xff):
        lit = rust_bytes(bytes([0x61, bv]))
        add(enum(['#[logos(utf8 = false)]'], ['#[token(%s, ignore(case))] A,' % lit]), 'accept', None, 'byte literal border: case-insensitive token')
        add(enum(['#[logos(utf8 = false)]'], ['#[regex(%s)] A,' % lit]), 'accept', None, 'byte literal border: regex')
        add(enum(['#[logos(utf8 = false)]', '#[logos(skip %s)]' % lit], ['#[token("zz")] Z,']), 'accept', None, 'byte literal border: skip')
        add(enum(['#[logos(utf8 = false)]', '#[logos(subpattern s = %s)]' % lit], ['#[regex("q(?&s)")] A,']), 'accept', None, 'byte literal border: subpattern')
    # an item that has to be refused, written *after another item of the same attribute* (a group-form item, an assignment, a
    # literal item, an empty item): whatever comes first must not make the parser stop reading
    bad_items = [('skip ""', 'empty'), ('skip "a*"', 'empty'), ('skip("b?")', 'empty'), ('skip r"#.*"', None), ('skip "(?&nope)"', 'undef_subpattern'), ('skip "("', None),
                 ('bogus = 1', None), ('skip "^x"', None)]
    fronts = ['skip(" ")', 'skip("\\t", priority = 2)', 'error(MyErr)', 'error(MyErr, callback = mk)', 'extras = u8', 'skip "\\n"', 'subpattern d = "[0-9]"', 'utf8 = true', 'crate = logos']
    for (bad, cls) in bad_items:
        for front in fronts:
            add(enum(['#[logos(%s, %s)]' % (front, bad)], ['#[token("q")] Q,']), 'reject', cls, 'item to be refused after `%s` in the same attribute' % front.split('(')[0].split(' ')[0])
            add(enum(['#[logos(%s,, %s)]' % (front, bad)], ['#[token("q")] Q,']), 'any', None, 'item to be refused after `%s` and an empty item' % front.split('(')[0].split(' ')[0])
    # ... and a named argument that has to be refused after a group-form argument of a variant attribute
    for attr in ['#[token("let", ignore(case), priority = x)]', '#[regex("l+", ignore(case), colour = 1)]', '#[regex("l+", ignore(case), priority = 1, priority = 2)]',
                 '#[token("t", ignore(case), callback(f))]', '#[regex(".*", ignore(case), allow_greedy = false)]']:
        add(enum([], [attr + ' A,']), 'reject', None, 'argument to be refused after a group-form argument')
    # every rejection class in every attribute position (skip in both spellings, subpattern, byte-string literal)
    add(enum(['#[logos(skip("(?&nope)+"))]'], ['#[token("b")] B,']), 'reject', 'undef_subpattern', 'undefined subpattern in a skip')
    add(enum(['#[logos(skip "x(?&nope)")]'], ['#[token("b")] B,']), 'reject', 'undef_subpattern', 'undefined subpattern in a bare skip')
    add(enum(['#[logos(subpattern a = "(?&b)x")]', '#[logos(subpattern b = "y")]'], ['#[regex("(?&a)")] A,']), 'reject', 'undef_subpattern', 'subpattern referring to a later one')
    add(enum(['#[logos(subpattern a = "(?&a)x")]'], ['#[regex("(?&a)")] A,']), 'reject', 'undef_subpattern', 'subpattern referring to itself')
    add(enum(['#[logos(skip("(?-u:\\b)x"))]'], ['#[token("b")] B,']), 'reject', None, 'look-behind at token start in a skip')
    add(enum(['#[logos(skip "^x")]'], ['#[token("b")] B,']), 'reject', None, 'start anchor in a bare skip')
    add(enum(['#[logos(subpattern s = "(?-u:\\b)")]'], ['#[regex("(?&s)x")] A,']), 'reject', None, 'look-behind at token start through a subpattern')
    add(enum(['#[logos(utf8 = false)]'], ['#[regex(b"a*")] A,']), 'reject', 'empty', 'nullable byte-string regex')
    add(enum(['#[logos(utf8 = false)]'], ['#[token(b"")] A,']), 'reject', 'empty', 'empty byte-string token')
    add(enum(['#[logos(utf8 = false)]', '#[logos(skip b"x?")]'], ['#[token("b")] B,']), 'reject', 'empty', 'nullable byte-string skip')
    add(enum(['#[logos(subpattern s = "a*")]'], ['#[regex("(?&s)")] A,']), 'reject', 'empty', 'nullable through a subpattern')
    add(enum(['#[logos(skip("("))]'], ['#[token("b")] B,']), 'reject', None, 'regex syntax error in a skip')
    add(enum(['#[logos(skip "[z-a]")]'], ['#[token("b")] B,']), 'reject', None, 'regex syntax error in a bare skip')
    add(enum(['#[logos(subpattern s = "x{2,1}")]'], ['#[token("b")] B,']), 'reject', None, 'regex syntax error in an unused subpattern')
    add(enum(['#[logos(utf8 = false)]'], ['#[regex(b"(?s-u:.)*q")] A,']), 'reject', 'greedy', 'greedy byte dot in a byte-string regex')
    add(enum(['#[logos(subpattern any = ".*")]'], ['#[regex("a(?&any)b")] A,']), 'reject', 'greedy', 'greedy dot through a subpattern')
    add(enum(['#[logos(subpattern any = ".*")]'], ['#[regex("a(?&any)b", allow_greedy = true)] A,']), 'noreject-greedy')
    # greedy dots at every depth
    for p in ['.*a', 'a.*', 'a.+', '(a.*)b', 'a(.*b)?', '((.+))', 'x(?:y(?:z.*))', '(a|b.*)c', '(?s:.)*', 'a[^\\n]*', 'x(a(b(c.+)))?', '(.*)+a', 'a(?:.*b){2}', '(?-u:.)*a', '(?s-u:.)+', '(.)*x', '((.))+x', '(?:(.)*y)+', '(?R).*', '(?R:.+)x', 'a[^\\r\\n]*', '(?R-u:.)*z', '[^\\n]+q', '(?s).*']:
        add(enum([], ['#[regex(%s)] A,' % rust_str(p)]), 'reject', 'greedy')
        add(enum([], ['#[regex(%s, allow_greedy = true)] A,' % rust_str(p)]), 'noreject-greedy')
        add(enum([], ['#[regex(%s, allow_greedy = false)] A,' % rust_str(p)]), 'reject', 'greedy', 'allow_greedy = false is not an opt-in')
    add(enum(['#[logos(skip(".*x"))]'], ['#[token("b")] B,']), 'reject', 'greedy')
    add(enum(['#[logos(skip(".*x", allow_greedy = true))]'], ['#[token("b")] B,']), 'noreject-greedy')
    add(enum(['#[logos(skip(".*x", allow_greedy = false))]'], ['#[token("b")] B,']), 'reject', 'greedy', 'allow_greedy = false is not an opt-in (skip)')
    add(enum([], ['#[regex(".+q", priority = 3, allow_greedy = false)] A,']), 'reject', 'greedy', 'allow_greedy = false next to another argument')
    for p in ['.*?a', 'a.{0,5}', 'a.?', '(.{2,3})+a', '[^a]+']:
        add(enum([], ['#[regex(%s)] A,' % rust_str(p)]), 'accept', None, 'bounded / lazy / not a dot')
    # non UTF-8 in str mode
    for v in ['#[regex("(?-u:\\\\xff)")] A,', '#[token(b"\\xff")] A,', '#[regex("(?-u:.)")] A,', '#[regex(b"\\xc3")] A,']:
        add(enum([], [v]), 'reject', 'nonutf8')
    add(enum(['#[logos(subpattern s = b"\\xff")]'], ['#[regex("a(?&s)")] A,']), 'reject', 'nonutf8')
    add(enum(['#[logos(utf8 = false)]'], ['#[regex("(?-u:\\\\xff)")] A,']), 'accept')
    # random mutations inside the attribute argument lists of a valid source (the enum stays an enum)
    argsets = [['"a"', 'priority = 3'], ['"[0-9]+"', '|lex| lex.slice().len()'], ['"x|y"', 'callback = cbk', 'ignore(case)'],
               ['"q+"', 'priority = 2', 'callback = cbk', 'allow_greedy = true']]
    logos_items = ['skip " +"', 'extras = u32', 'skip("t", priority = 4)', 'subpattern d = "[0-9]"', 'error = E']
    ins = [',', '=', 'priority', 'callback', '"z"', '3', '|', 'ignore', 'skip', '()', '(case)', 'true', 'x y', '= =', 'b"q"', "'c'"]
    for i in range(n_random):
        def mut(parts):
            parts = list(parts)
            for _ in range(R.choice([1, 1, 2])):
                op = R.choice(['del', 'dup', 'swap', 'ins', 'split'])
                if not parts:
                    break
                j = R.randrange(len(parts))
                if op == 'del':
                    parts.pop(j)
                elif op == 'dup':
                    parts.insert(j, parts[j])
                elif op == 'swap' and j + 1 < len(parts):
                    parts[j], parts[j + 1] = parts[j + 1], parts[j]
                elif op == 'ins':
                    parts.insert(j, R.choice(ins))
                else:
                    parts[j] = parts[j].replace(' = ', ' ', 1) if ' = ' in parts[j] else parts[j] + ' ' + R.choice(ins)
            return ', '.join(parts)
        vs = []
        for k, a in enumerate(argsets):
            body = mut(a) if R.random() < 0.5 else ', '.join(a)
            kind = 'regex' if k else 'token'
            vs.append('#[%s(%s)] V%d%s,' % (kind, body, k, '(usize)' if k == 1 else ''))
        la = mut(logos_items) if R.random() < 0.6 else ', '.join(logos_items)
        add(enum(['#[logos(%s)]' % la], vs), 'any', None, 'argument-level mutation')
    return E


# ---------------------------------------------------------------------------------------------
# C04: str-mode definitions whose patterns can (or cannot) match invalid UTF-8, in every attribute position
# ---------------------------------------------------------------------------------------------
def fam_c04():
    out = []
    bad_str = ['(?-u)\\xFF', '(?-u:[\\x80-\\xBF])+', 'a(?-u:\\xC3)', '(?s-u:.)', '(?-u:[^a])']
    bad_bytes = [b'\\xC3', b'[\\x80-\\xFF]', b'a\\xE2\\x82', b'\\xF0\\x9F+',
                 # byte-level spellings that look like encodings and are not: a lead-byte range straddling sequence lengths, overlong
                 # forms, surrogates, beyond U+10FFFF, a range running from ASCII into lead bytes
                 b'[\\xC2-\\xEF][\\x80-\\xBF]', b'[\\x00-\\xDF]', b'\\xE0[\\x80-\\xBF][\\x80-\\xBF]', b'\\xED[\\x80-\\xBF][\\x80-\\xBF]',
                 b'\\xF4[\\x80-\\xBF][\\x80-\\xBF][\\x80-\\xBF]', b'[\\xC0-\\xC1][\\x80-\\xBF]', b'\\xF0[\\x80-\\xBF][\\x80-\\xBF][\\x80-\\xBF]',
                 b'[\\xE1-\\xF3][\\x80-\\xBF][\\x80-\\xBF]', b'[\\xC2-\\xDF][\\x80-\\xC0]']
    ok_bytes = [b'\\xC3\\xA9', b'(\\xE2\\x82\\xAC)+', b'[a-z]+']
    other = '#[regex("[0-9][0-9]+")] W,'      # (two digits at least: no tie with the patterns below in byte mode)
    for p in bad_str:
        out.append(dict(family='c04-regex', src=enum([], ['#[regex(%s)] A,' % rust_str(p), other]), meta=dict(closed=False)))
        out.append(dict(family='c04-skip', src=enum(['#[logos(skip(%s))]' % rust_str(p)], [other]), meta=dict(closed=False)))
        out.append(dict(family='c04-skip-bare', src=enum(['#[logos(skip %s)]' % rust_str(p)], [other]), meta=dict(closed=False)))
        out.append(dict(family='c04-subpattern', src=enum(['#[logos(subpattern s0 = %s)]' % rust_str(p)], ['#[regex("x(?&s0)")] A,', other]), meta=dict(closed=False)))
    # a subpattern that can match invalid UTF-8 is refused on its own account: when nothing refers to it, and when every
    # pattern that refers to it is valid UTF-8 as a whole (the other half of the code point is written next to the reference)
    for p in bad_str:
        out.append(dict(family='c04-subpattern-unused', src=enum(['#[logos(subpattern s0 = %s)]' % rust_str(p)], [other]), meta=dict(closed=False)))
    for (sub, use) in [('(?-u:\\xC3)', '(?&s0)(?-u:\\xA9)'), ('(?-u:[\\x80-\\xBF])', '(?-u:\\xC3)(?&s0)'), ('(?-u:\\xE2\\x82)', 'x(?&s0)(?-u:\\xAC)+'),
                       ('(?-u:\\x9F\\x98\\x80)', '(?-u:\\xF0)(?&s0)')]:
        out.append(dict(family='c04-subpattern-completed', src=enum(['#[logos(subpattern s0 = %s)]' % rust_str(sub.replace('\\\\', '\\'))],
                                                                   ['#[regex(%s)] A,' % rust_str(use.replace('\\\\', '\\')), other]), meta=dict(closed=False)))
        out.append(dict(family='c04-subpattern-completed', src=enum(['#[logos(subpattern s0 = %s)]' % rust_str(sub.replace('\\\\', '\\')), '#[logos(skip(%s))]' % rust_str(use.replace('\\\\', '\\'))],
                                                                   [other]), meta=dict(closed=False)))
    for b in bad_bytes:
        lit = 'b"%s"' % b.decode('ascii')
        out.append(dict(family='c04-regex-b', src=enum([], ['#[regex(%s)] A,' % lit, other]), meta=dict(closed=False)))
        out.append(dict(family='c04-skip-b', src=enum(['#[logos(skip(%s))]' % lit], [other]), meta=dict(closed=False)))
        out.append(dict(family='c04-skip-bare-b', src=enum(['#[logos(skip %s)]' % lit], [other]), meta=dict(closed=False)))
        out.append(dict(family='c04-skip-cb-b', src=enum(['#[logos(skip(%s, priority = 7))]' % lit], [other]), meta=dict(closed=False)))
    for b in [b'\\xC3', b'\\xFF\\xFE', b'a\\x80']:
        lit = 'b"%s"' % b.decode('ascii')
        out.append(dict(family='c04-token-b', src=enum([], ['#[token(%s)] A,' % lit, other]), meta=dict(closed=False)))
    for b in ok_bytes:
        lit = 'b"%s"' % b.decode('ascii')
        out.append(dict(family='c04-ok-b', src=enum(['#[logos(skip(%s))]' % lit], ['#[regex("[0-9]+")] N,']), meta=dict(closed=True)))
        out.append(dict(family='c04-ok-b', src=enum([], ['#[regex(%s)] A,' % lit, '#[regex("[0-9]+")] N,']), meta=dict(closed=True)))
    return out
