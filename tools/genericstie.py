"""The generics of the generated impl: Lean model (Generics.lean: freshName, sourceLt, bounds, genericArgs, headerErrs on top of
TypeItems.runFixed) against the header `impl<BOUNDS> Logos<'SRC> for T<GENERICS>` the real derive emits.

Enumerated: enums with 0-3 declared lifetimes (among them 's, 's_, 's__ so that the fresh name has to move) and 0-2 type
parameters, with every combination of `lifetime` item (absent, none, each declared lifetime, an undeclared one) and `type` items
(absent, a type without lifetimes, a reference type using a declared lifetime), in both orders of the items.
"""
import itertools
import re
import pipeline as P

HDR = '#[derive(Logos, Debug, PartialEq, Clone)]'


def cases():
    out = []
    for lts in ([], ['a'], ['s'], ['a', 'b'], ['s', 's_'], ['s_', 's'], ['s', 's_', 's__'], ['s__', 'a']):
        for tys in ([], ['X'], ['X', 'Y']):
            lt_items = [None, 'none'] + lts + ['zz']
            for lt in lt_items:
                ty_choices = []
                for t in tys:
                    ch = [None, ('u8', [])]
                    if lts:
                        ch.append(("&'%s str" % lts[0], [lts[0]]))
                        ch.append(("Option<&'%s [u8]>" % lts[-1], [lts[-1]]))
                    ty_choices.append(ch)
                for combo in itertools.product(*ty_choices) if ty_choices else [()]:
                    items = []
                    if lt is not None:
                        items.append(("lifetime = %s" % ('none' if lt == 'none' else "'" + lt), 'L-' if lt == 'none' else 'L' + lt))
                    for t, c in zip(tys, combo):
                        if c is not None:
                            items.append(('type %s = %s' % (t, c[0]), 'T:%s:%s' % (t, '.'.join(c[1]))))
                    for order in ((items, ) if len(items) < 2 else (items, items[::-1])):
                        out.append((lts, tys, list(order)))
    return out


def render(lts, tys, items):
    params = ["'" + l for l in lts] + tys
    head = 'pub enum T' + ('<%s>' % ', '.join(params) if params else '')
    variants = ['#[token("=")] Eq,']
    for j, t in enumerate(tys):
        variants.append('#[regex("%s+", |_| todo!())] V%d(%s),' % ('abcdef'[j], j, t))
    for j, l in enumerate(lts):
        variants.append('#[regex("%s+")] W%d(&\'%s str),' % ('ghijkl'[j], j, l))
    attr = ['#[logos(%s)]' % ', '.join(t for t, _ in items)] if items else []
    src = '\n'.join([HDR] + attr + [head + ' {'] + ['    ' + v for v in variants] + ['}'])
    q = 'GENERICS %s %s %s' % (','.join(lts) or '-', ','.join(tys) or '-', ' '.join(q for _, q in items))
    return src, q.rstrip()


HEAD_RE = re.compile(r"impl\s*<(?P<b>[^>]*)>\s*:: logos :: Logos\s*<\s*'(?P<s>\w+)\s*>\s*for T(?P<g>.*?)\{ type Error")


def split_top(s):
    out, depth, cur = [], 0, ''
    for ch in s:
        if ch == '<':
            depth += 1
        elif ch == '>':
            depth -= 1
        if ch == ',' and depth == 0:
            out.append(cur.strip())
            cur = ''
        else:
            cur += ch
    if cur.strip():
        out.append(cur.strip())
    return out


def observed(codetext):
    m = HEAD_RE.search(codetext)
    if not m:
        return None
    b = [x.strip().lstrip("'").strip() for x in m.group('b').split(',') if x.strip()]
    g = m.group('g').strip()
    args = []
    if g.startswith('<'):
        g = g[1:g.rindex('>')]
        for a in split_top(g):
            if a.startswith("'"):
                args.append('L' + a[1:].strip())
            else:
                args.append('T' + '.'.join(re.findall(r"'\s*(\w+)", a)))
    return dict(src=m.group('s'), bounds=','.join(b), generics=','.join(args))


TY_MSG = ('Lifetime can be defined only once', 'not found in parameters', 'can only have one type assigned', 'is not a declared type parameter')
H_MSG = ('Generic type parameter without a concrete type', 'Source lifetime must be explicitly specified')


def tie(run, log=print):
    cs = cases()
    rendered = [render(*c) for c in cs]
    caps = P.run_capture([s for s, _ in rendered], code=True)
    ans = P.run_lean(['CASE G'] + ['Q ' + q for _, q in rendered], nproc=4)
    stats = dict(definitions=len(cs), agree=0, differ=0, accepted=0, fresh_name_moved=0, samples=[])
    for (lts, tys, items), (src, q), cap in zip(cs, rendered, caps):
        a = ans.get('G ' + q)
        if a is None or cap is None:
            continue
        f = dict(kv.split('=', 1) for kv in a.split(' ') if '=' in kv)
        ty_obs = sum(1 for e in cap.errs if any(m in e for m in TY_MSG))
        h_obs = sum(1 for e in cap.errs if any(m in e for m in H_MSG))
        ok = ty_obs == int(f['errs']) and h_obs == int(f['herrs'])
        obs = observed(cap.codetext or '')
        if ok and obs is not None and int(f['herrs']) == 0:
            ok = obs['src'] == f['src'] and obs['bounds'] == f['bounds'] and obs['generics'] == f['generics']
        if cap.verdict == 'ACCEPT':
            stats['accepted'] += 1
        if f['src'] not in ('s',) and any(q_ == 'L-' for _, q_ in items):
            stats['fresh_name_moved'] += 1
        if ok:
            stats['agree'] += 1
        else:
            stats['differ'] += 1
            if len(stats['samples']) < 5:
                stats['samples'].append(dict(definition=src, model=a, derive_header=obs, derive_errors=cap.errs))
            run.violation('tie', dict(definition=src, model=a, derive_header=obs, derive_errors=cap.errs,
                                      what='the model of the impl header (Generics: source lifetime, lifetime bounds, generic arguments, their diagnostics) and the real derive disagree',
                                      correspondence='TypeParams::{add_lifetime, source_lifetime, lifetime_bounds, generics} vs LogosModel.Generics'),
                          no_input=True, key='generics|' + src)
    stats['what'] = ('TypeItems.runFixed + Generics (freshName, sourceLt, bounds, genericArgs, headerErrs) on the declared parameters and the lifetime / type items of an enum, '
                     'compared with the impl header and the diagnostics of the real derive; fresh_name_moved = definitions where `lifetime = none` had to avoid a declared lifetime')
    return stats
