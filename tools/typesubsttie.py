"""Substitution of the concrete types of generic parameters: Lean model (TypeSubst.lean: mentions, the depth-first search of
reject_recursive_types, getType with nested substitution) against the real derive.

Enumerated and random: enums with 1-3 type parameters, `#[logos(lifetime = none, type P = ..)]` items whose concrete types are trees
over the parameters (Vec<_>, Option<_>, tuples, arrays, references, fn pointers, trait objects with parenthesised arguments, a
qualified-self path and a two-segment path that only *look* like a parameter), cyclic and acyclic, and variants whose field types are
such trees too.  Compared: which items the derive reports as referring to themselves, and - for accepted definitions - the type
the derive puts into `CallbackRetVal::<'s, TYPE, T>::construct` for every variant (the output of Parser::get_type).
"""
import itertools
import random
import re
import pipeline as P

HDR = '#[derive(Logos, Debug, PartialEq, Clone)]'

# name -> (arity, rust template)
CONS = {
    'u8': (0, 'u8'), 'str': (0, "&'static str"), 'Vec': (1, 'Vec<{0}>'), 'Option': (1, 'Option<{0}>'), 'tup': (2, '({0}, {1})'), 'arr': (1, '[{0}; 2]'),
    'ref': (1, "&'static {0}"), 'fnp': (2, 'fn({0}) -> {1}'), 'dynfn': (2, 'Box<dyn Fn({0}) -> {1}>'), 'slice': (1, "&'static [{0}]"),
    'ptr': (1, '*const {0}'), 'paren': (1, '({0})'), 'cell': (1, 'std::cell::RefCell<{0}>'),
}
# (no constructor with a comma between angle brackets: the items of #[logos(...)] are split at every comma outside a group, so
# `type P = HashMap<K, V>` is refused with "expected `,`" - a type with two arguments needs an alias)
# shapes that mention a parameter without being a parameter path: the traversal does not look there
OPAQUE = {'qself0': '<P0 as Iterator>::Item', 'assoc0': 'P0::Item', 'mac': 'PhantomData<fn() -> u8>'}


def render(t):
    """t: ('p', i) | (name, [kids])"""
    if t[0] == 'p':
        return 'P%d' % t[1]
    if t[0] in OPAQUE:
        return OPAQUE[t[0]]
    ar, tpl = CONS[t[0]]
    return tpl.format(*[render(k) for k in t[1]])


def prefix(t):
    if t[0] == 'p':
        return ['p%d' % t[1]]
    if t[0] in OPAQUE:
        return ['c%s/0' % t[0]]
    out = ['c%s/%d' % (t[0], len(t[1]))]
    for k in t[1]:
        out += prefix(k)
    return out


def unprefix(toks):
    t = toks.pop(0)
    if t.startswith('p'):
        return ('p', int(t[1:]))
    name, k = t[1:].split('/')
    return (name, [unprefix(toks) for _ in range(int(k))])


def rand_type(R, nparams, depth):
    r = R.random()
    if depth == 0 or r < 0.25:
        if R.random() < 0.6:
            return ('p', R.randrange(nparams))
        return (R.choice(['u8', 'str', 'qself0', 'assoc0']), [])
    name = R.choice([n for n, (a, _) in CONS.items() if a > 0])
    return (name, [rand_type(R, nparams, depth - 1) for _ in range(CONS[name][0])])


def cases(seed, n_random):
    R = random.Random(seed * 104729 + 3)
    out = []
    P0, P1, P2 = ('p', 0), ('p', 1), ('p', 2)
    u8 = ('u8', [])
    V = lambda x: ('Vec', [x])
    O = lambda x: ('Option', [x])
    fixed = [
        ([V(P0)], [P0]), ([V(u8)], [P0, V(P0)]), ([P0], [P0]), ([O(('ref', [P0]))], [P0]),
        ([V(P1), u8], [P0, P1, ('tup', [P0, P1])]), ([V(P1), O(P0)], [P0, P1]), ([P1, P0], [P0, P1]), ([P1, u8], [P0, V(P0)]),
        ([V(P1), V(P2), u8], [P0, P1, P2]), ([V(P1), V(P2), O(P0)], [P0]), ([V(P1), V(P2), O(P1)], [P0, P2]), ([V(P2), u8, ('tup', [P1, P1])], [P0, ('fnp', [P0, P2])]),
        ([('qself0', [])], [P0]), ([('assoc0', [])], [P0, V(P0)]), ([('dynfn', [P0, u8])], [P0]), ([('dynfn', [P1, P1]), u8], [P0, ('arr', [P0])]),
        ([('tup', [P1, P2]), ('tup', [P2, P2]), ('str', [])], [P0, P1, ('tup', [P0, P1])]), ([None], [P0]), ([u8, None], [P0, P1]), ([V(P1), None], [P0]),
        ([('paren', [P0])], [P0]), ([('ptr', [P1]), ('slice', [P0])], [P0]), ([('tup', [P1, P2]), ('cell', [P2]), ('fnp', [u8, P0])], [P0]),
    ]
    for env, fields in fixed:
        out.append((env, fields))
    for _ in range(n_random):
        n = R.choice([1, 2, 2, 3, 3])
        env = [rand_type(R, n, R.choice([0, 1, 2, 3])) if R.random() < 0.9 else None for _ in range(n)]
        fields = [rand_type(R, n, R.choice([0, 1, 2])) for _ in range(R.choice([1, 2, 3]))]
        out.append((env, fields))
        # the same items with the parameters made acyclic (a parameter only mentions later ones): accepted, the code is compared
        def later(t, i):
            if t[0] == 'p':
                return ('p', t[1]) if t[1] > i else ('u8', [])
            if t[0] in OPAQUE:
                return t
            return (t[0], [later(k, i) for k in t[1]])
        env2 = [later(t, i) if t is not None else ('u8', []) for i, t in enumerate(env)]
        out.append((env2, fields))
    return out


def source(env, fields, order):
    n = len(env)
    items = ['lifetime = none'] + ['type P%d = %s' % (i, render(env[i])) for i in order if env[i] is not None]
    variants = ['#[token("=")] Eq,'] + ['#[regex("%s+", |_| todo!())] V%d(%s),' % ('abcdefgh'[j], j, render(f)) for j, f in enumerate(fields)]
    return '\n'.join([HDR, '#[logos(%s)]' % ', '.join(items), 'pub enum T<%s> {' % ', '.join('P%d' % i for i in range(n))] + ['    ' + v for v in variants] + ['}'])


RET = re.compile(r"CallbackRetVal :: < '\w+ , (.*?) , T\s*(?:<[^()]*?>)? > :: construct \(cb_result , T :: V(\d+)\)")


HEADER = re.compile(r"Logos < '\w+ > for T < (.*?) > \{ type Error")
OPQ = re.compile(r'<P0asIterator>::Item|P0::Item')     # shapes that mention a parameter without being a parameter path


def norm(s):
    return re.sub(r'\s+', '', s)


def tie(run, seed, n_random, log=print):
    cs = cases(seed, n_random)
    srcs, qs = [], []
    for env, fields in cs:
        order = list(range(len(env)))
        srcs.append(source(env, fields, order))
        # (the concrete types of the parameters are asked for as well: they are the generic arguments of the impl header)
        qs.append('TYSUBST %s # %s' % (' ; '.join('-' if t is None else ' '.join(prefix(t)) for t in env),
                                       ' ; '.join(' '.join(prefix(f)) for f in list(fields) + [t for t in env if t is not None])))
    caps = P.run_capture(srcs, code=True)
    ans = P.run_lean(['CASE Y'] + ['Q ' + q for q in qs], nproc=4)
    stats = dict(definitions=len(cs), agree=0, differ=0, with_reported_items=0, field_types_compared=0, headers_compared=0, nested_substitutions=0, samples=[])
    for (env, fields), src, q, cap in zip(cs, srcs, qs, caps):
        a = ans.get('Y ' + q)
        if a is None or cap is None or a == 'BADQ':
            continue
        m = re.match(r'cyc=(\S*) types=(.*)$', a)
        cyc = sorted(int(x) for x in m.group(1).split(',') if x)
        types = [unprefix(t.split(' ')) if t not in ('NOFUEL', 'BAD') else None for t in m.group(2).split(' ; ')]
        obs_cyc = sorted(int(mm.group(1)) for e in cap.errs for mm in [re.search(r'The concrete type of P(\d+) refers to P\d+ itself', e)] if mm)
        ok = cyc == obs_cyc and all(t is not None for t in types)
        what = None
        if not ok:
            what = 'items reported as referring to themselves: model %s, derive %s' % (cyc, obs_cyc)
        if cyc:
            stats['with_reported_items'] += 1
        if ok and cap.verdict == 'ACCEPT' and cap.codetext:
            got = {int(k): norm(t) for t, k in RET.findall(cap.codetext)}
            for j, (f, t) in enumerate(zip(fields, types)):
                want = norm(render(t))
                if j in got:
                    stats['field_types_compared'] += 1
                    if t != f and any(x is not None and x[0] != 'p' and any(k[0] == 'p' for k in x[1]) for x in env):
                        stats['nested_substitutions'] += 1
                    if got[j] != want:
                        ok = False
                        what = 'field type of V%d: model %s, derive %s' % (j, want, got[j])
                        break
        if ok and cap.verdict == 'ACCEPT' and cap.codetext and all(t is not None for t in env):
            # the impl header `impl .. Logos<'s> for T<ARGS>`: a declared parameter left in ARGS is an undeclared name there (D18);
            # ARGS are the concrete types rewritten like the field types (model: getType on each item)
            hm = HEADER.search(cap.codetext)
            if hm:
                stats['headers_compared'] += 1
                args = norm(hm.group(1))
                want = norm(', '.join(render(t) for t in types[len(fields):]))
                left = sorted(set(re.findall(r'\bP\d\b', OPQ.sub('', args))))
                if left:
                    ok = False
                    what = 'impl header mentions declared parameters: %s' % args
                    run.violation('header-parameter', dict(definition=src, header_arguments=args, parameters_left=left,
                                                           what='the derive accepts the definition and the impl header it generates names the type parameters %s, which are not declared there (E0425): the concrete type of a parameter mentions another parameter and is not rewritten in the header as it is in the variant fields' % ', '.join(left)),
                                  key='typesubsthdr|' + src)
                    stats['differ'] += 1
                    continue
                elif args != want:
                    ok = False
                    what = 'impl header arguments: model %s, derive %s' % (want, args)
        if ok:
            stats['agree'] += 1
        else:
            stats['differ'] += 1
            if len(stats['samples']) < 5:
                stats['samples'].append(dict(definition=src, model=a, what=what))
            if cyc and cap.verdict != 'REJECT':
                # the property itself: an item whose parameter reaches itself (TypeSubst.cyclic_iff) cannot be substituted away - the
                # rewrite of a field type mentioning it never ends (getType_found_diverges); the derive has to refuse the definition
                run.violation('recursive-type-accepted', dict(definition=src, verdict=cap.verdict, derive_errors=cap.errs, circular_items=['P%d' % k for k in cyc],
                                                              what='the concrete types of %s refer to themselves (through each other); the derive does not refuse the definition (verdict %s): rewriting a field type that mentions them does not end' % (', '.join('P%d' % k for k in cyc), cap.verdict)),
                              key='typesubst|' + src)
            else:
                run.violation('tie', dict(definition=src, model=a, derive_errors=cap.errs, what=what,
                                          correspondence='TypeParams::reject_recursive_types + Parser::get_type (traverse_type) vs LogosModel.TypeSubst (cyclic, reject, getType)'),
                              no_input=True, key='typesubst|' + src)
    stats['what'] = ('TypeSubst (mentions, the search of reject_recursive_types, getType after reject) on the type items of generic enums, compared with the items the real derive '
                     'reports as referring to themselves and with the field types it generates (CallbackRetVal::<_, TYPE, _>); theorems getType_total (the rewrite ends after reject), '
                     'cyclic_iff (an item is reported iff its parameter reaches itself)')
    return stats


if __name__ == '__main__':
    class R_:
        def violation(self, *a, **k):
            print('VIOLATION', a, k)
    print(tie(R_(), 1, 200))
