#!/usr/bin/env python3
"""usage: design_rows.py <seeded name> ...   -- prints the rows of DESIGN.md section 9 for saved seeded changes, from their meta.json"""
import sys, json
for n in sys.argv[1:]:
    m = json.load(open('/verif/seeded/%s/meta.json' % n))
    d = m['detection']
    first = d.get('first_run', '')
    now = '; '.join('%s: %s' % (k, v) for k, v in d.items() if k != 'first_run')
    print('| `%s` | %s | %s | %s | %s |' % (n, m['property'], m.get('needs_to_manifest', '').replace('|', '\\|'), first.replace('|', '\\|'), now.replace('|', '\\|')))
