"""Run definitions through rustc as a real procedural macro (stable toolchain): one crate, one module
per case; diagnostics are attributed to cases by line number."""
import os, sys, json, subprocess, shutil
sys.path.insert(0, os.path.dirname(os.path.abspath(__file__)))
import pipeline as P

ENV = dict(os.environ, CARGO_NET_OFFLINE='true')


def run_ui(name, sources, features=()):
    root = os.path.join(P.WORK, name)
    os.makedirs(os.path.join(root, 'src'), exist_ok=True)
    lines = ['#![allow(warnings)]']
    ranges = []
    for i, src in enumerate(sources):
        lines.append('mod c%d {' % i)
        lines.append('use logos::Logos;')
        a = len(lines) + 1
        lines += src.split('\n')
        b = len(lines)
        lines.append('}')
        ranges.append((a, b))
    lines.append('fn main() {}')
    text = '\n'.join(lines) + '\n'
    open(os.path.join(root, 'src', 'main.rs'), 'w').write(text)
    feats = ''.join(', "%s"' % f for f in features)
    open(os.path.join(root, 'Cargo.toml'), 'w').write('''[package]
name = "%s"
version = "0.0.0"
edition = "2021"
[workspace]
[dependencies]
logos = { path = "/repo", features = ["export_derive"%s] }
[profile.dev]
debug = false
''' % (name, feats))
    if not os.path.exists(os.path.join(root, 'Cargo.lock')):
        shutil.copyfile('/repo/Cargo.lock', os.path.join(root, 'Cargo.lock'))
    os.makedirs(os.path.join(root, '.cargo'), exist_ok=True)
    open(os.path.join(root, '.cargo', 'config.toml'), 'w').write('[net]\noffline = true\n')
    tdir = os.path.join(P.HARNESS, 'target-ui', name)
    p = subprocess.run(['cargo', 'check', '--offline', '--message-format=json', '--target-dir', tdir], cwd=root, env=ENV,
                       capture_output=True, text=True)
    per = [[] for _ in sources]
    other = []
    for ln in p.stdout.split('\n'):
        if not ln.startswith('{'):
            continue
        try:
            m = json.loads(ln)
        except Exception:
            continue
        if m.get('reason') != 'compiler-message':
            continue
        msg = m['message']
        if msg.get('level') not in ('error', 'error: internal compiler error'):
            continue
        text_ = msg.get('message', '')
        line = None
        # (the primary span first: secondary labels may point into other cases - "a function of that name is defined here")
        for sp in sorted(msg.get('spans', []), key=lambda sp: not sp.get('is_primary')):
            if sp.get('file_name', '').endswith('main.rs'):
                line = sp['line_start']
                # macro expansions point into the derive line
                break
        placed = False
        if line is not None:
            for i, (a, b) in enumerate(ranges):
                if a <= line <= b:
                    per[i].append(text_)
                    placed = True
                    break
        if not placed:
            other.append(text_)
    return per, other, p.returncode, p.stderr[-3000:]
