#!/bin/sh
# usage: tools/confirm_seeded.sh <worktree>  -- confirm a seeded change: suite green with it, demo fails with it, demo passes without it
WT="$1"
cd "$WT" || exit 2
export CARGO_NET_OFFLINE=true
git diff --quiet -- . ':!patch.diff' && { echo "no change applied in worktree"; }
git diff -- logos-codegen src logos-derive logos-cli > /tmp/confirm_patch.diff
echo "--- demo WITH change (expect failure)"
cargo test -p tests --test seeded_demo --offline > /tmp/confirm_demo_with.out 2>&1; echo "exit=$?  $(grep -E '^test result' /tmp/confirm_demo_with.out | tail -1)"
echo "--- suite WITH change, demo moved aside (expect pass)"
mv tests/tests/seeded_demo.rs /tmp/seeded_demo.rs.aside
cargo test --workspace --no-fail-fast --offline > /tmp/confirm_suite.out 2>&1; echo "exit=$?  failed targets: $(grep -c 'test result: FAILED' /tmp/confirm_suite.out)  passed tests: $(grep -E '^test result: ok' /tmp/confirm_suite.out | awk '{s+=$4} END {print s}')"
mv /tmp/seeded_demo.rs.aside tests/tests/seeded_demo.rs
echo "--- demo WITHOUT change (expect pass)"
git apply -R /tmp/confirm_patch.diff
cargo test -p tests --test seeded_demo --offline > /tmp/confirm_demo_without.out 2>&1; echo "exit=$?  $(grep -E '^test result' /tmp/confirm_demo_without.out | tail -1)"
git apply /tmp/confirm_patch.diff
