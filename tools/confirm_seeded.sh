#!/bin/sh
# usage: tools/confirm_seeded.sh <worktree>  -- confirm a seeded change: suite green with it, demo fails with it, demo passes without it
WT="$1"
TAG="$(basename "$WT")"
cd "$WT" || exit 2
export CARGO_NET_OFFLINE=true
git diff --quiet -- . ':!patch.diff' && { echo "no change applied in worktree"; }
git add -N -- logos-codegen src logos-derive logos-cli 2>/dev/null   # new files are part of the change
git diff -- logos-codegen src logos-derive logos-cli > /tmp/confirm_$TAG.diff
echo "--- demo WITH change (expect failure)"
cargo test -p tests --test seeded_demo --offline > /tmp/confirm_${TAG}_with.out 2>&1; echo "exit=$?  $(grep -E '^test result' /tmp/confirm_${TAG}_with.out | tail -1)"
echo "--- suite WITH change, demo moved aside (expect pass)"
mv tests/tests/seeded_demo.rs /tmp/seeded_demo_$TAG.rs.aside
cargo test --workspace --no-fail-fast --offline > /tmp/confirm_${TAG}_suite.out 2>&1; echo "exit=$?  failed targets: $(grep -c 'test result: FAILED' /tmp/confirm_${TAG}_suite.out)  passed tests: $(grep -E '^test result: ok' /tmp/confirm_${TAG}_suite.out | awk '{s+=$4} END {print s}')"
mv /tmp/seeded_demo_$TAG.rs.aside tests/tests/seeded_demo.rs
echo "--- demo WITHOUT change (expect pass)"
git apply -R /tmp/confirm_$TAG.diff
cargo test -p tests --test seeded_demo --offline > /tmp/confirm_${TAG}_without.out 2>&1; echo "exit=$?  $(grep -E '^test result' /tmp/confirm_${TAG}_without.out | tail -1)"
git apply /tmp/confirm_$TAG.diff
