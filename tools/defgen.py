"""Structured definitions with model-predicted outcomes (a generator for the definition-level ties).

A definition is drawn as a *structure* (mode, subpatterns, skips, variants with shapes and attributes, argument lists with their
spellings), rendered to Rust source, and handed to the Lean models piecewise: `ATTR` (Attr.parseArgs: the argument list of every
attribute), `IGNOREGRP` (IgnoreGroup.parseGroup: every flag group), `TEXTPIPE` (Subst.compileCalls: the regex sources handed to
Pattern::compile, with flags) and `ASSEMBLE` (Assemble.assemble: the leaf table).  The prediction - refused or not; if not, the
compile calls and the leaf table - is compared with the verdict, the CSRC lines and the LEAF lines of the real derive.
Patterns come from a pool in which nothing is nullable, greedy, non-UTF-8 or overlapping (every pattern starts with its own
two-character prefix), so that the verdict depends on the attribute level only.
"""
import random
import pipeline as P
import textpipe as TP
import assemble_tie as AT
from defs import rust_str, rust_bytes

BODIES = ['[a-c]+', '(?:x|yz)', 'k', 'é', '[0-9]{2}', 'm?n', '(ab)+', 'Q', 'ß+', 'w[.]', 'a b', '中', 'a\\.b', 'z{1,3}', '\\+']
SUB_BODIES = ['[0-9]', 'ab|c', 'é', ' ', '[α-ω]+', 'x y', '(?i)k', '\\d']
IGNORE_SPELLINGS = [(['case'], 'ignore(case)'), (['case', ','], 'ignore(case,)'), (['case', ',', 'case'], 'ignore(case, case)'), (['case', ','], 'ignore( case , )'),
                    ([], 'ignore()'), (['ascii_case'], 'ignore(ascii_case)'), (['case', 'case'], 'ignore(case case)'), (['Case'], 'ignore(Case)')]


class Attr:
    def __init__(self, kind, is_bytes, pat, pieces, trailing, raw=None):
        self.kind, self.is_bytes, self.pat, self.pieces, self.trailing = kind, is_bytes, pat, pieces, trailing
        self.raw = raw            # byte-string literal given by its bytes (tokens in byte mode)

    def value(self):
        return self.raw if self.raw is not None else self.pat.encode('utf-8')

    def lit(self):
        return rust_bytes(self.value()) if self.is_bytes else rust_str(self.pat)

    def body(self):
        return ', '.join([self.lit()] + [p['text'] for p in self.pieces]) + (',' if self.trailing else '')

    def tokens(self):
        toks = []
        for j, p in enumerate(self.pieces):
            toks += p['toks']
            if j + 1 < len(self.pieces):
                toks.append('c')
        if self.trailing:
            toks.append('c')
        return toks


def piece(R, gid, allow_positional, malformed=False, used=None):
    r = R.random()
    if not malformed:
        # a valid list: each named argument at most once, good spellings only
        opts = [o for o in ('prio', 'cb', 'ign', 'ag') if o not in used]
        if not opts:
            return None
        o = R.choice(opts)
        used.add(o)
        if o == 'prio':
            n = R.choice([0, 1, 3, 7, 12, 40])
            return dict(text='priority = %d' % n, toks=['i:priority', 'e', 'l:%d' % n], eff=('prio', n))
        if o == 'cb':
            if allow_positional and R.random() < 0.5:
                return dict(text='my_cb', toks=['i:my_cb'], eff=('cb', True))
            if R.random() < 0.4:
                # callback values full of operator tokens: the value extends to the next top-level comma whatever it contains
                v = R.choice(['conv :: < u32 >', '| lex | lex . a < lex . b', '| lex | lex . n << 2', '| lex | lex . a > lex . b && lex . c < lex . d'])
                return dict(text='callback = ' + v.replace(' ', ''), toks=['i:callback', 'e'] + ptoks(v), eff=('cb', True))
            return dict(text='callback = my_cb', toks=['i:callback', 'e', 'i:my_cb'], eff=('cb', True))
        if o == 'ign':
            g, text = R.choice(IGNORE_SPELLINGS[:4])
            return dict(text=text, toks=['i:ignore', 'g:%d' % gid[0]], eff=('ign', list(g)), group=gid_next(gid))
        v = R.choice(['true', 'false'])
        return dict(text='allow_greedy = %s' % v, toks=['i:allow_greedy', 'e', 'i:' + v], eff=('ag', v))
    if allow_positional and r < 0.15:
        return dict(text='my_cb', toks=['i:my_cb'], eff=('cb', True))
    if r < 0.35:
        n = R.choice([0, 1, 3, 7, 12, 40])
        return dict(text='priority = %d' % n, toks=['i:priority', 'e', 'l:%d' % n], eff=('prio', n))
    if r < 0.5:
        return dict(text='callback = my_cb', toks=['i:callback', 'e', 'i:my_cb'], eff=('cb', True))
    if r < 0.75:
        g, text = R.choice(IGNORE_SPELLINGS if R.random() < 0.5 else IGNORE_SPELLINGS[:4])
        return dict(text=text, toks=['i:ignore', 'g:%d' % gid[0]], eff=('ign', list(g)), group=gid_next(gid))
    if r < 0.85:
        v = R.choice(['true', 'false'])
        return dict(text='allow_greedy = %s' % v, toks=['i:allow_greedy', 'e', 'i:' + v], eff=('ag', v))
    if r < 0.9:
        return dict(text='colour = 3', toks=['i:colour', 'e', 'l:3'], eff=('bad', None))
    if r < 0.95:
        return dict(text='priority(3)', toks=['i:priority', 'g:%d' % gid[0]], eff=('bad', None), group=gid_next(gid))
    return dict(text='ignore = case', toks=['i:ignore', 'e', 'i:case'], eff=('bad', None))


def ptoks(text):
    toks = []
    for w in text.split(' '):
        if w.isidentifier():
            toks.append('i:' + w)
        elif w.isdigit():
            toks.append('l:' + w)
        else:
            toks += ['p:%d' % ord(ch) for ch in w]
    return toks


def gid_next(gid):
    g = gid[0]
    gid[0] += 1
    return g


def gen(R, k):
    gid = [10]
    n = [0]
    malformed = R.random() < 0.25

    def pat(refs, regex):
        n[0] += 1
        prefix = 'p%c' % (ord('A') + (n[0] + 26 * k) % 26) + '%d' % n[0]
        if not regex:
            return prefix + R.choice(['q', 'é', '+x', ' z', '.k', 'K'])
        body = R.choice(BODIES)
        if refs and R.random() < 0.5:
            body = R.choice(['(?&%s)+', '(?&%s)é', 'é(?&%s)', '§(?&%s)?x', '(?&%s)', '§§(?&%s)+', 'éé中(?&%s)x', '😀(?&%s)*', '(?:ä(?&%s)|ö)', ' (?&%s) ']) % R.choice(refs)
        elif malformed and R.random() < 0.15:
            body = '(?&nope)'
        return prefix + body
    utf8 = R.choice([None, None, True, False])
    subs = []
    for j in range(R.choice([0, 0, 1, 2])):
        body = R.choice(SUB_BODIES)
        if subs and R.random() < 0.4:
            body = R.choice(['(?&%s)-', 'x(?&%s)', '(?&%s)|q']) % subs[-1][0]
        subs.append(('s%d' % j, body))
    # byte mode: a byte-string subpattern that only byte mode can accept (the mode item may come before or after it)
    bsubs = []
    if utf8 is False and R.random() < 0.5:
        bsubs.append(('hi', '[\\x80-\\xFF]'))
    refs = [s[0] for s in subs]
    brefs = [s[0] for s in bsubs]

    def attr(kind):
        is_bytes = (utf8 is False) and R.random() < 0.25
        p = pat((refs + brefs) if kind == 'r' else [], kind == 'r')
        if is_bytes and any(ord(c) > 127 for c in p):
            is_bytes = False
        npieces = R.choice([0, 0, 1, 1, 2, 3])
        pieces = []
        used = set()
        for j in range(npieces):
            pc = piece(R, gid, allow_positional=(j == 0), malformed=malformed and R.random() < 0.5, used=used)
            if pc is not None:
                pieces.append(pc)
        raw = None
        if kind == 't' and utf8 is False and R.random() < 0.35:
            # a byte-string token with a byte at the ASCII border / above it (escaped as \\xNN when ignore(case) is given)
            raw = p[:3].encode() + bytes([R.choice([0x00, 0x7f, 0x80, 0x81, 0xbf, 0xff])]) + R.choice([b'', b'k', b'.'])
            is_bytes = True
        return Attr(kind, is_bytes, p, pieces, trailing=R.random() < 0.2 and len(pieces) > 0, raw=raw)
    skips = [attr('r') for _ in range(R.choice([0, 0, 1, 2]))]
    variants = []
    for j in range(R.choice([1, 2, 3])):
        shape = R.choice(['u', 'u', 'u', 't1', 't1', 't2', 'n', 't0']) if (malformed and R.random() < 0.5) else R.choice(['u', 'u', 't1'])
        variants.append(('V%d' % j, shape, [attr(R.choice(['t', 'r'])) for _ in range(R.choice([1, 1, 2]))]))
    extra = []
    for text in R.sample(['error = MyErr', 'error(MyErr)', 'error(MyErr, callback = mk_err)', 'error(MyErr, mk_err)', 'extras = u8', 'crate = ::logos', 'extras = Vec<(u8, u8)>'], R.choice([0, 0, 1, 2])):
        if text.startswith('error') and any(t.startswith('error') for (_, t) in extra):
            continue
        if text.startswith('extras') and any(t.startswith('extras') for (_, t) in extra):
            continue
        extra.append((R.randrange(8), text))
    return dict(utf8=utf8, subs=subs, bsubs=bsubs, skips=skips, variants=variants, extra_items=extra, utf8_pos=R.randrange(8), combined=R.random() < 0.4)


def render(d):
    out = ['#[derive(Logos, Debug, PartialEq, Clone)]']
    items = ['subpattern %s = %s' % (nm, rust_str(body)) for (nm, body) in d['subs']] + ['subpattern %s = %s' % (nm, rust_bytes(body.encode())) for (nm, body) in d.get('bsubs', [])] + ['skip(%s)' % a.body() for a in d['skips']]
    # items that do not touch the patterns (error type in its three spellings, extras, crate path): anywhere among the others
    for (pos, text) in d.get('extra_items', []):
        items.insert(pos % (len(items) + 1), text)
    if d['utf8'] is not None:
        # the mode may be given before, between or after the items it governs
        items.insert(d.get('utf8_pos', 0) % (len(items) + 1), 'utf8 = %s' % ('true' if d['utf8'] else 'false'))
    if d.get('combined') and items:
        out.append('#[logos(%s)]' % ', '.join(items))
    else:
        out += ['#[logos(%s)]' % it for it in items]
    out.append('pub enum T {')
    for (vn, shape, attrs) in d['variants']:
        for a in attrs:
            out.append('    #[%s(%s)]' % ('token' if a.kind == 't' else 'regex', a.body()))
        fields = {'u': '', 'n': ' { x: u8 }'}.get(shape)
        if fields is None:
            fields = '(%s)' % ', '.join(['u8'] * int(shape[1:]))
        out.append('    %s%s,' % (vn, fields))
    out.append('}')
    return '\n'.join(out)


def predict(d, ans, name):
    """ans: answers of the Lean driver for this definition's queries (dict query -> answer)"""
    errs = 0
    info = []
    for a in d['skips'] + [a for v in d['variants'] for a in v[2]]:
        toks = a.tokens()
        av = ans.get('%s ATTR 1 %s' % (name, ' '.join(toks))) if toks else 'prio=false cb=false ag=false ign=0 errs='
        if av is None or av == 'BADTOK':
            return None
        f = dict(x.split('=', 1) for x in av.split(' '))
        aerrs = [x for x in f.get('errs', '').split(',') if x]
        errs += len(aerrs)
        prio = None
        for p in a.pieces:
            if p['eff'][0] == 'prio':
                prio = p['eff'][1]           # (a duplicate is an error anyway)
        icase = False
        for p in a.pieces:
            if p['eff'][0] == 'ign':
                gq = '%s IGNOREGRP %s' % (name, ' '.join('c' if t == ',' else 'i:' + t for t in p['eff'][1]))
                gv = ans.get(gq.rstrip())
                if gv is None:
                    return None
                g = dict(x.split('=') for x in gv.split(' '))
                errs += int(g['errs'])
                icase = icase or g['flag'] == '1'
        info.append(dict(attr=a, prio=prio, cb=f.get('cb') == 'true', icase=icase))
    return errs, info


def queries(d):
    qs = []
    for a in d['skips'] + [a for v in d['variants'] for a in v[2]]:
        toks = a.tokens()
        if toks:
            qs.append('Q ATTR 1 ' + ' '.join(toks))
        for p in a.pieces:
            if p['eff'][0] == 'ign':
                qs.append(('Q IGNOREGRP ' + ' '.join('c' if t == ',' else 'i:' + t for t in p['eff'][1])).rstrip())
    return qs


def tie(run, seed, n, report=True, refmatch=None):
    R = random.Random(seed * 7919 + 13)
    defs = [gen(R, k) for k in range(n)]
    srcs = [render(d) for d in defs]
    caps = P.run_capture(srcs)
    lines = []
    for k, d in enumerate(defs):
        lines.append('CASE g%d' % k)
        lines += queries(d)
    ans1 = P.run_lean(lines, nproc=4)
    # second round: text pipeline and assembly with the flags / priorities decided by the first
    lines2 = []
    pre = {}
    for k, d in enumerate(defs):
        pr = predict(d, ans1, 'g%d' % k)
        pre[k] = pr
        if pr is None:
            continue
        errs, info = pr
        it = iter(info)
        sk = [next(it) for _ in d['skips']]
        pipe = dict(subs=[(nm.encode(), 's', body.encode('utf-8')) for (nm, body) in d['subs']] + [(nm.encode(), 'b', body.encode()) for (nm, body) in d.get('bsubs', [])],
                    items=[('r', 'b' if i['attr'].is_bytes else 's', i['icase'], i['attr'].value()) for i in sk])
        asm = ['s:%s:%d' % ('-' if i['prio'] is None else i['prio'], 1 if i['cb'] else 0) for i in sk]
        for (vn, shape, attrs) in d['variants']:
            asm.append('v:%s:%s' % (vn, shape))
            for a in attrs:
                i = next(it)
                if shape != 't0':
                    pipe['items'].append((a.kind, 'b' if a.is_bytes else 's', i['icase'], a.value()))
                asm.append('a:%s:%s:%d:%d' % (a.kind, '-' if i['prio'] is None else i['prio'], 1 if i['cb'] else 0, len(a.value())))
        lines2.append('CASE h%d' % k)
        rq = TP.request(pipe)
        if rq:
            lines2.append(rq)
        lines2.append('Q ASSEMBLE ' + ' '.join(asm))
        pre[k] = (errs, info, rq, 'Q ASSEMBLE ' + ' '.join(asm), pipe)
    ans2 = P.run_lean(lines2, nproc=4)
    stats = dict(definitions=n, predicted_refused=0, predicted_accepted=0, agree=0, differ=0, samples=[])
    for k, d in enumerate(defs):
        cap, pr = caps[k], pre[k]
        if cap is None or pr is None:
            continue
        if cap.verdict not in ('ACCEPT', 'REJECT'):
            stats['differ'] += 1
            if report:
                run.violation('derive-crash', dict(definition=srcs[k], derive_verdict=cap.verdict, message=getattr(cap, 'panic_msg', None),
                                                   what='the derive does not return (panic / crash) on a generated definition'), key='defgen-crash|' + srcs[k])
            continue
        errs, info, rq, aq, pipe = pr
        tp = TP.parse_answer(ans2.get('h%d %s' % (k, rq[2:]))) if rq else (0, [])
        am = AT.parse_answer(ans2.get('h%d %s' % (k, aq[2:])))
        if tp is None or am is None:
            continue
        n_regex_items = sum(1 for it_ in pipe['items'] if it_[0] == 'r' or it_[2])
        n_sub_calls = len(d['subs']) - 0
        missing = (len(pipe['subs']) + n_regex_items) - len(tp[1]) if tp[0] == 0 else 1
        total = errs + tp[0] + am[0] + max(0, missing)
        why = None
        if total > 0:
            stats['predicted_refused'] += 1
            if cap.verdict != 'REJECT':
                why = 'the model predicts a diagnostic (attribute level), the derive accepts'
        else:
            stats['predicted_accepted'] += 1
            if cap.verdict != 'ACCEPT':
                why = 'the model predicts acceptance, the derive refuses: %s' % (cap.errs[:2],)
            elif list(cap.csrc) != tp[1]:
                why = 'regex sources / flags handed to Pattern::compile differ from the prediction'
            elif not AT.agree(am, cap):
                why = 'leaf table differs from the prediction'
        if why is None:
            stats['agree'] += 1
        else:
            stats['differ'] += 1
            if len(stats['samples']) < 4:
                stats['samples'].append(dict(definition=srcs[k], why=why))
            # a difference in the regex sources is turned into a failing input where the regex crate tells the two apart
            found = []
            if refmatch is not None and cap.verdict == 'ACCEPT' and len(cap.csrc) == len(tp[1]):
                pairs = [dict(definition=srcs[k], family='structured', model=m_, code=c_) for m_, c_ in zip(tp[1], cap.csrc) if m_ != c_]
                found = TP.distinguish(pairs, refmatch, limit=3)
            for (pr_, w, x, y) in found:
                stats['witnesses'] = stats.get('witnesses', 0) + 1
                if report:
                    run.violation('text-splice', dict(definition=srcs[k], regex_source_prescribed=pr_['model'][2].decode('utf-8', 'replace'),
                                                      regex_source_built_by_the_code=pr_['code'][2].decode('utf-8', 'replace'),
                                                      flags_unicode_icase=dict(prescribed=pr_['model'][:2], code=pr_['code'][:2]),
                                                      input_hex=None if w is None else (w.hex() or '-'), input_text=None if w is None else w.decode('utf-8', 'replace'),
                                                      prescribed_matches=x, code_matches=y,
                                                      what='the regex source / flags handed to the regex parser are not those the property prescribes, and the two differ on this string under the regex crate'),
                                  key='defgen-splice|%s|%s' % (srcs[k], pr_['code'][2].hex()))
            if report and not found:
                run.violation('tie', dict(definition=srcs[k], what=why, derive_verdict=cap.verdict, derive_errors=cap.errs[:3],
                                          derive_compile_calls=[(u, i, s.decode('utf-8', 'replace')) for (u, i, s) in cap.csrc], predicted_compile_calls=[(u, i, s.decode('utf-8', 'replace')) for (u, i, s) in tp[1]],
                                          derive_leaves=cap.leaves, predicted_leaves=am[1], predicted_diagnostics=total,
                                          correspondence='attribute-level models (Attr.parseArgs, IgnoreGroup.parseGroup, Subst.compileCalls, Assemble.assemble) vs the real derive on a generated structured definition'),
                              no_input=True, key='defgen|' + srcs[k])
    return stats
