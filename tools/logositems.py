"""The items of #[logos(...)]: the Lean model LogosItems.run (Parser::try_parse_logos, parse_callback, the argument list of
error(..)) against the real derive.

An item is drawn from a pool as (source text, token list, groups); a definition is a list of items on a plain or a generic enum.
The model's prediction - which diagnostics (by class), whether the attribute is accepted, what the slots hold - is compared with
the diagnostics, the verdict and the generated impl header of the real derive.  Enumerated: every item alone, every ordered pair,
every item twice; then random lists of up to five items with some of their permutations.
"""
import itertools
import random
import pipeline as P

HDR = '#[derive(Logos, Debug, PartialEq, Clone)]'

# (text, tokens, groups {gid: tokens}); literal payloads: 1000.. str, 2000.. byte string, other numbers: other literals
POOL = [
    ('crate = logos', ['i:crate', 'e', 'i:logos'], {}),
    ('crate = ::logos', ['i:crate', 'e', 'j:58', 'p:58', 'i:logos'], {}),
    ('crate(logos)', ['i:crate', 'g:1'], {1: ['i:logos']}),
    ('crate "logos"', ['i:crate', 'l:1001'], {}),
    ('error = MyErr', ['i:error', 'e', 'i:MyErr'], {}),
    ('error = my::Err', ['i:error', 'e', 'i:my', 'j:58', 'p:58', 'i:Err'], {}),
    ('error(MyErr)', ['i:error', 'g:2'], {2: ['i:MyErr']}),
    ('error(MyErr, mk_err)', ['i:error', 'g:3'], {3: ['i:MyErr', 'c', 'i:mk_err']}),
    ('error(MyErr, callback = mk_err)', ['i:error', 'g:4'], {4: ['i:MyErr', 'c', 'i:callback', 'e', 'i:mk_err']}),
    ('error(MyErr, |lex| mk(lex))', ['i:error', 'g:5'], {5: ['i:MyErr', 'c', 'p:124', 'i:lex', 'p:124', 'i:mk', 'g:50']}),
    ('error(MyErr, callback = |lex| mk(lex),)', ['i:error', 'g:6'], {6: ['i:MyErr', 'c', 'i:callback', 'e', 'p:124', 'i:lex', 'p:124', 'i:mk', 'g:50', 'c']}),
    ('error(MyErr, mk_err, callback = other)', ['i:error', 'g:7'], {7: ['i:MyErr', 'c', 'i:mk_err', 'c', 'i:callback', 'e', 'i:other']}),
    ('error(MyErr, callback = a, callback = b)', ['i:error', 'g:8'], {8: ['i:MyErr', 'c', 'i:callback', 'e', 'i:a', 'c', 'i:callback', 'e', 'i:b']}),
    ('error(MyErr, callback(a))', ['i:error', 'g:9'], {9: ['i:MyErr', 'c', 'i:callback', 'g:51']}),
    ('error(MyErr, colour = 3)', ['i:error', 'g:10'], {10: ['i:MyErr', 'c', 'i:colour', 'e', 'l:3']}),
    ('error(MyErr, a, b)', ['i:error', 'g:11'], {11: ['i:MyErr', 'c', 'i:a', 'c', 'i:b']}),
    ('error(MyErr, |lex|)', ['i:error', 'g:12'], {12: ['i:MyErr', 'c', 'p:124', 'i:lex', 'p:124']}),
    ('error(MyErr, |3| x)', ['i:error', 'g:13'], {13: ['i:MyErr', 'c', 'p:124', 'l:3', 'p:124', 'i:x']}),
    ('error(MyErr, callback = |a b| x)', ['i:error', 'g:14'], {14: ['i:MyErr', 'c', 'i:callback', 'e', 'p:124', 'i:a', 'i:b', 'p:124', 'i:x']}),
    ('error()', ['i:error', 'g:15'], {15: []}),
    ('error(3 + )', ['i:error', 'g:16'], {16: ['l:3', 'p:43']}),
    ('error "MyErr"', ['i:error', 'l:1002'], {}),
    ('error(MyErr, kw x = 3)', ['i:error', 'g:17'], {17: ['i:MyErr', 'c', 'i:kw', 'i:x', 'e', 'l:3']}),
    ('error(MyErr, kw x 3)', ['i:error', 'g:18'], {18: ['i:MyErr', 'c', 'i:kw', 'i:x', 'l:3']}),
    ('export_dir = "out"', ['i:export_dir', 'e', 'l:1003'], {}),
    ('export_dir = b"out"', ['i:export_dir', 'e', 'l:2003'], {}),
    ('export_dir = out', ['i:export_dir', 'e', 'i:out'], {}),
    ('export_dir("out")', ['i:export_dir', 'g:19'], {19: ['l:1003']}),
    ('extras = MyExtras', ['i:extras', 'e', 'i:MyExtras'], {}),
    ('extras = u8', ['i:extras', 'e', 'i:u8'], {}),
    ('extras(u8)', ['i:extras', 'g:20'], {20: ['i:u8']}),
    ('extras = ()', ['i:extras', 'e', 'g:60'], {60: []}),          # the default value spelled out: still an item
    ('error = ()', ['i:error', 'e', 'g:61'], {61: []}),
    ('skip " +"', ['i:skip', 'l:1004'], {}),
    ('skip b"\\t"', ['i:skip', 'l:2004'], {}),
    ('skip 3', ['i:skip', 'l:3'], {}),
    ('skip("x")', ['i:skip', 'g:21'], {21: ['l:1005']}),
    ('skip("y", priority = 9)', ['i:skip', 'g:22'], {22: ['l:1006', 'c', 'i:priority', 'e', 'l:9']}),
    ('skip("w", my_cb, priority = 2,)', ['i:skip', 'g:23'], {23: ['l:1007', 'c', 'i:my_cb', 'c', 'i:priority', 'e', 'l:2', 'c']}),
    ('skip("v", priority = 1, priority = 2)', ['i:skip', 'g:24'], {24: ['l:1008', 'c', 'i:priority', 'e', 'l:1', 'c', 'i:priority', 'e', 'l:2']}),
    ('skip("u", colour = 1)', ['i:skip', 'g:25'], {25: ['l:1009', 'c', 'i:colour', 'e', 'l:1']}),
    ('skip()', ['i:skip', 'g:26'], {26: []}),
    ('skip(3)', ['i:skip', 'g:27'], {27: ['l:3']}),
    ('skip(x)', ['i:skip', 'g:28'], {28: ['i:x']}),
    ('skip = "x"', ['i:skip', 'e', 'l:1005'], {}),
    ('source = str', ['i:source', 'e', 'i:str'], {}),
    ('subpattern ab = "a|b"', ['i:subpattern', 'i:ab', 'e', 'l:1010'], {}),
    ('subpattern hi = b"[c-d]"', ['i:subpattern', 'i:hi', 'e', 'l:2010'], {}),
    ('subpattern n = 3', ['i:subpattern', 'i:n', 'e', 'l:3'], {}),
    ('subpattern = "a"', ['i:subpattern', 'e', 'l:1011'], {}),
    ('subpattern("a")', ['i:subpattern', 'g:29'], {29: ['l:1011']}),
    ('utf8 = true', ['i:utf8', 'e', 'i:true'], {}),
    ('utf8 = false', ['i:utf8', 'e', 'i:false'], {}),
    ('utf8 = 1', ['i:utf8', 'e', 'l:1'], {}),
    ('utf8(false)', ['i:utf8', 'g:30'], {30: ['i:false']}),
    ('colour = 3', ['i:colour', 'e', 'l:3'], {}),
    ('colour', ['i:colour'], {}),
    ('"str"', ['l:1012'], {}),
    ('= 3', ['e', 'l:3'], {}),
    ('kw x 3', ['i:kw', 'i:x', 'l:3'], {}),
]
# items for generic enums
GPOOL = [
    ("lifetime = 'a", ['i:lifetime', 'e', 'j:39', 'i:a'], {}),
    ("lifetime = 'z", ['i:lifetime', 'e', 'j:39', 'i:z'], {}),
    ('lifetime = none', ['i:lifetime', 'e', 'i:none'], {}),
    ('lifetime = 3', ['i:lifetime', 'e', 'l:3'], {}),
    ("lifetime('a)", ['i:lifetime', 'g:31'], {31: ['j:39', 'i:a']}),
    ("type X = &'a str", ['i:type', 'i:X', 'e', 'p:38', 'j:39', 'i:a', 'i:str'], {}),
    ('type X = u8', ['i:type', 'i:X', 'e', 'i:u8'], {}),
    ('type Q = u8', ['i:type', 'i:Q', 'e', 'i:u8'], {}),
    ('type X = 3 +', ['i:type', 'i:X', 'e', 'l:3', 'p:43'], {}),
    ('type = u8', ['i:type', 'e', 'i:u8'], {}),
]

MSG = [
    ('Previous definition here', None), ('Previously assigned here', None), ('Previous callback set here', None),
    ('Generic type parameter without a concrete type', None), ('Source lifetime must be explicitly specified', None),
    # later stages (not the item parser): two identical skips tie, a subpattern name given twice
    ('can match simultaneously', None), ('already exists', None),
    ('Invalid nested attribute', 'invalid'),
    ('Expected: #[logos(crate', 'form-crate'), ('Expected: #[logos(error = SomeType)] or', 'form-error'), ('Expected #[logos(error(SomeType))]', 'form-error'),
    ('Expected #[logos(export_dir', 'form-export_dir'), ('Expected: #[logos(extras', 'form-extras'),
    ('Expected: #[logos(skip "regex literal")] or', 'form-skip'), ('Expected #[logos(skip("regex literal"[', 'skipgroup'),
    ('Expected: #[logos(subpattern', 'form-subpattern'), ('Expected: #[logos(type', 'form-type'), ('Expected: #[logos(utf8', 'form-utf8'),
    ('Expected: #[logos(lifetime', 'form-lifetime'),
    ('Logos crate path can be defined only once', 'dup-crate'), ('Error type can be defined only once', 'dup-error'),
    ('Export path can be defined only once', 'dup-export_dir'), ('Extras can be defined only once', 'dup-extras'),
    ('UTF-8 mode can be defined only once', 'dup-utf8'),
    ('Lifetime can be defined only once', 'ty'), ('not found in parameters', 'ty'), ('can only have one type assigned', 'ty'), ('is not a declared type parameter', 'ty'),
    ('Unknown nested attribute #[logos(', 'unknown'), ('The `source` attribute is deprecated', 'source'),
    ('Unexpected token in attribute', 'unexpected'), ('Expected a named argument at this position', 'positional'),
    ('Not a valid callback', 'badcb'), ('Callback has been already set', 'dupcb'), ('Expected: callback = ...', 'cbform'),
    ('Unknown nested attribute: ', 'unknown-arg'), ('Inline callbacks must use closure syntax', 'closure-syntax'), ('Callback missing a body', 'closure-body'),
    ('Resetting previously set priority', 'dupprio'), ('Expected: priority = <integer>', 'form-priority'), ('Expected an unsigned integer', 'badprio'),
]
# model class -> the same names
NORM = {'e-unexpected': 'unexpected', 'arg-unexpected': 'unexpected', 'e-positional': 'positional', 'arg-positional': 'positional',
        'e-badcb': 'badcb', 'arg-badcb': 'badcb', 'e-dupcb': 'dupcb', 'arg-dupcb': 'dupcb', 'e-cbform': 'cbform', 'arg-form-callback': 'cbform',
        'e-unknown': 'unknown-arg', 'arg-unknown': 'unknown-arg', 'arg-dupprio': 'dupprio', 'arg-form-priority': 'form-priority',
        'dup-lifetime': 'ty'}


def observed_classes(errs):
    out = []
    for e in errs:
        for pat, cls in MSG:
            if pat in e:
                if cls:
                    out.append(cls)
                break
        else:
            out.append('bad')          # a message of syn (the value does not parse) or "Expected a &str ..." / "Expected a boolean literal"
    return sorted(out)


def predicted_classes(ans):
    f = dict(kv.split('=', 1) for kv in ans.split(' ') if '=' in kv)
    cl = [c for c in f.get('errs', '').split(',') if c]
    out = []
    for c in cl:
        c = NORM.get(c, c)
        if c.startswith('bad-'):
            c = 'bad'
        out.append(c)
    out += ['ty'] * int(f.get('tyerrs', '0'))
    return sorted(out), f


def render(items, generic):
    head = "pub enum T<'a, X>" if generic else 'pub enum T'
    variants = ['#[regex("[0-9]+")] Id(X),', '#[token("=")] Eq(&\'a str),'] if generic else ['#[regex("[0-9]+")] Id,', '#[token("=")] Eq,']
    attr = '#[logos(%s)]' % ', '.join(t for t, _, _ in items)
    src = '\n'.join([HDR, attr, head + ' {'] + ['    ' + v for v in variants] + ['}'])
    toks, groups = [], {}
    for j, (_, tk, gr) in enumerate(items):
        # group ids are made unique per position so that the same pool item may occur twice
        ren = {g: g + 100 * (j + 1) for g in gr}
        toks += [('g:%d' % ren[int(t[2:])] if t.startswith('g:') and int(t[2:]) in ren else t) for t in tk]
        if j + 1 < len(items):
            toks.append('c')
        for g, gt in gr.items():
            groups[ren[g]] = gt
    q = 'LOGOSITEMS %s %s %s' % ('a' if generic else '-', 'X' if generic else '-', ' '.join(toks))
    for g, gt in groups.items():
        q += ' | ' + ' '.join(['%d' % g] + gt)
    return src, q


def cases(seed, n_random):
    R = random.Random(seed * 7919 + 5)
    out = []
    for it in POOL:
        out.append(([it], False))
        out.append(([it, it], False))
    for it in GPOOL:
        out.append(([it], True))
        out.append(([it, it], True))
    for a, b in itertools.permutations(POOL, 2):
        # two items of the same kind (a single-valued item given twice): always, in both orders
        if R.random() < 0.35 or a[1][0] == b[1][0]:
            out.append(([a, b], False))
    for a, b in itertools.permutations(GPOOL + POOL[:2] + POOL[31:33], 2):
        out.append(([a, b], True))
    for _ in range(n_random):
        generic = R.random() < 0.3
        pool = POOL + (GPOOL * 3 if generic else [])
        k = R.choice([2, 3, 3, 4, 5])
        items = [R.choice(pool) for _ in range(k)]
        out.append((items, generic))
        perms = list(itertools.permutations(items))
        R.shuffle(perms)
        for pm in perms[:3]:
            out.append((list(pm), generic))
    return out


def tie(run, seed, n_random):
    """returns the evidence dict; a disagreement between model and derive is reported as a tie violation (no input of the lexer involved)"""
    cs = cases(seed, n_random)
    rendered = [render(items, g) for items, g in cs]
    caps = P.run_capture([s for s, _ in rendered])
    lines = ['CASE I'] + ['Q ' + q for _, q in rendered]
    ans = P.run_lean(lines, nproc=4)
    stats = dict(definitions=len(cs), agree=0, differ=0, accepted=0, refused=0, returned_early=0, classes={}, samples=[])
    groups = {}
    for (items, g), (src, q), cap in zip(cs, rendered, caps):
        a = ans.get('I ' + q)
        if a is None or cap is None:
            continue
        pred, f = predicted_classes(a)
        obs = observed_classes(cap.errs)
        filtered = any(('Generic type parameter without' in e or 'Source lifetime must be explicitly' in e or 'can match simultaneously' in e or 'already exists' in e) for e in cap.errs)
        ok = pred == obs
        if ok and not filtered:
            ok = (f.get('acc') == '1') == (cap.verdict == 'ACCEPT')
        if ok and cap.verdict == 'ACCEPT' and cap.codetext is not None:
            t = cap.codetext
            head = t[:t.index('fn lex')] if 'fn lex' in t else t
            ok = ((f.get('utf8') == '0') == (not cap.utf8)) and (int(f.get('skips', '0')) == sum(1 for l in cap.leaves if l[1] == 0)) \
                and (any(t == 'extras = ()' for t, _, _ in items) or (f.get('extras') == '1') == ('MyExtras' in head or 'type Extras = u8' in head.replace(' ;', ';'))) \
                and (any(t == 'error = ()' for t, _, _ in items) or (f.get('error') != '-') == ('MyErr' in head or 'my :: Err' in head or 'my::Err' in head))
        for c in pred:
            stats['classes'][c] = stats['classes'].get(c, 0) + 1
        if f.get('ret') == '1':
            stats['returned_early'] += 1
        stats['accepted' if cap.verdict == 'ACCEPT' else 'refused'] += 1
        # every order of the same items: the verdict must not depend on the order (C18), whatever the model says
        key = (g, tuple(sorted(t for t, _, _ in items)))
        groups.setdefault(key, []).append((cap.verdict, src))
        if ok:
            stats['agree'] += 1
        else:
            stats['differ'] += 1
            if len(stats['samples']) < 5:
                stats['samples'].append(dict(definition=src, model=a, derive_verdict=cap.verdict, derive_errors=cap.errs))
            run.violation('tie', dict(definition=src, model=a, predicted_classes=pred, observed_classes=obs, derive_verdict=cap.verdict, derive_errors=cap.errs,
                                      what='the model of try_parse_logos (LogosItems.run) and the real derive disagree on the diagnostics, the verdict or the slots of this #[logos(...)] attribute',
                                      correspondence='Parser::try_parse_logos vs LogosModel.LogosItems'), no_input=True, key='logositems|' + src)
    stats['order_groups'] = sum(1 for v in groups.values() if len(v) > 1)
    for key, v in groups.items():
        if len({x[0] for x in v}) > 1:
            acc = [s for vd, s in v if vd == 'ACCEPT'][0]
            rej = [s for vd, s in v if vd != 'ACCEPT'][0]
            run.violation('order-dependent', dict(canonical=acc, permuted=rej, what='the same #[logos(...)] items are accepted in one order and refused in another'),
                          key='itemorder|' + acc)
    stats['what'] = ('LogosItems.run (Lean model of Parser::try_parse_logos, parse_callback and the argument list of error(..)) on the token list of a #[logos(...)] attribute: '
                     'diagnostic classes, accepted or not, and for accepted attributes the mode, the number of skips and the presence of extras / error type, compared with the real derive')
    return stats
