"""Definition-level properties: C08 ambiguity, C09 priorities, C10 literals/ignore-case, C11 subpatterns."""
import os, re, sys, json, random, subprocess, time, re
sys.path.insert(0, os.path.dirname(os.path.abspath(__file__)))
from common import Run, audit, load_theorems, TRUSTED_BASE
import pipeline as P
import families as F
import defs as D
import textpipe as TP

EQ_FUEL = {'quick': 150, 'thorough': 20000}
SIZES = {'quick': dict(c08=150, c09=80, c10=120, c11=60), 'thorough': dict(c08=1500, c09=600, c10=900, c11=500)}


def hexs(b):
    return b.hex() if b else '-'


def start(prop, tier, seed):
    run = Run(prop, tier, seed)
    au = audit(prop, load_theorems(prop))
    for pb in au['problems']:
        run.violation('proof', dict(theorem_audit=pb), no_input=True)
    P.build_harness()
    P.build_lean()
    run.coverage.update(dict(obligations=au['obligations'], discharged=au['discharged'], theorems=au['names'], axioms=au['axioms'],
                             checker_cmd=au['checker_cmd'], kernel_recheck=au.get('kernel_recheck'), trusted_base=TRUSTED_BASE))
    return run


def lean_queries(cases, caps, queries):
    """queries: dict case index -> list of query strings. returns dict (idx, query) -> answer"""
    lines = []
    for i, qs in queries.items():
        if caps[i] is None or caps[i].nodump:
            continue
        lines += P.case_block(str(i), caps[i], None)
        if any(q in ('STYPE', 'PASSES', 'FROMDFA') for q in qs):
            lines += caps[i].raw
        for q in qs:
            lines.append('Q ' + q)
    ans = P.run_lean(lines, nproc=12)
    return {(int(k.split(' ', 1)[0]), k.split(' ', 1)[1]): v for k, v in ans.items()}


def refmatch(reqs):
    """reqs: list of lines for the refmatch binary; returns output lines"""
    binp = os.path.join(P.HARNESS, 'target', 'debug', 'refmatch')
    p = subprocess.run([binp], input='\n'.join(reqs) + '\n', capture_output=True, text=True)
    return p.stdout.split('\n')


# ------------------------------------------------------------------------------------------------
def check_c08(tier, seed, log=print):
    run = start('C08', tier, seed)
    R = random.Random(seed)
    cases = F.fam_c08(R, SIZES[tier]['c08'])
    # plus the generated lexer corpus (mostly unambiguous) to exercise the "only if" direction
    gen = D.corpus(seed, 40 if tier == 'quick' else 300)
    for i, d in enumerate(gen):
        cases.append(dict(family='corpus', src=d.source('T'), meta={}))
    caps = P.run_capture([c['src'] for c in cases])
    ans = lean_queries(cases, caps, {i: ['TIE', 'NULLABLE', 'STYPE'] for i in range(len(cases))})
    n = decided = ties = 0
    unknown = 0
    samples = []
    look_stats = dict(decided=0, ties=0, free=0)
    for i, c in enumerate(cases):
        cap = caps[i]
        if cap is None or cap.nodump or cap.verdict not in ('ACCEPT', 'REJECT'):
            continue
        n += 1
        # the tie search below looks at the leaves the derive built: every pattern written in the definition has to be one of them
        written = len(re.findall(r'#\[(?:token|regex)\(', c['src'])) + len(re.findall(r'\bskip[ (]', c['src']))
        if cap.verdict == 'ACCEPT' and len(cap.leaves) != written:
            run.violation('leaf-dropped', dict(definition=c['src'], patterns_written=written, leaves_of_the_derive=[list(l) for l in cap.leaves],
                                               what='a pattern written in the definition is not among the leaves of the accepted lexer: an overlap with it can neither be reported nor resolved by priority'),
                          key='leafdrop|' + c['src'])
        v = ans.get((i, 'TIE'), '')
        if c['family'] in ('c08-look', 'c08-look-enum') and v.startswith(('TIE', 'FREE')):
            look_stats['decided'] += 1
            look_stats['ties' if v.startswith('TIE') else 'free'] += 1
        nul = ans.get((i, 'NULLABLE'), '')
        classes = cap.err_classes()
        other = [x for x in classes if x != 'ambiguous']
        if v.startswith(('LOOK', 'UNKNOWN', 'NODUMP')) or v == '':
            unknown += 1
            continue
        if '1' in nul.split(' ') or any(g[0] in (0, 1) for g in cap.gerrs):
            continue   # Graph::new returns before the ambiguity check when a pattern is nullable
        if v in ('BADWITNESS', 'CHECKFAIL'):
            run.violation('validator', dict(definition=c['src'], verdict=v, what='tie search produced a result its proved checker rejects'), no_input=True)
            continue
        decided += 1
        derive_amb = any(g[0] == 2 for g in cap.gerrs)
        if v.startswith('TIE'):
            ties += 1
            _, whex, tops = v.split(' ')[:3]
            ctx = (v.split(' ') + [''])[3]
            tops = sorted(int(x) for x in tops.split(','))
            if len(samples) < 5:
                samples.append(dict(definition=c['src'], witness_hex=whex, context=ctx, tied_leaves=tops, derive_errors=cap.errs[:2]))
            # what the user sees: the definition must be refused, and the diagnostics must carry the literal of every tied pattern
            # (the text of the literal as written, from the hook's SRC lines - not the wording of the message)
            lit = {}
            for l_ in cap.dump:
                if l_.startswith('SRC '):
                    t_ = l_.split(' ')
                    lit[int(t_[1])] = bytes.fromhex(t_[2]).decode('utf-8', 'replace') if len(t_) > 2 else ''
            unnamed = [l for l in tops if lit.get(l) and not any(lit[l] in e for e in cap.errs)]
            if derive_amb and (cap.verdict == 'ACCEPT' or unnamed):
                run.violation('silent-choice', dict(definition=c['src'], witness_hex=whex, witness_context_prev_next=ctx, witness_text=bytes.fromhex(whex if whex != '-' else '').decode('utf-8', 'replace'),
                                                    tied_leaves=tops, leaves_missing_from_the_diagnostics=unnamed, derive_verdict=cap.verdict, derive_errors=cap.errs,
                                                    what='two patterns of equal top priority both match the witness and the graph records the ambiguity, but the compile errors the user gets '
                                                         'do not refuse the definition / do not name every tied pattern'),
                              key='silent|' + c['src'])
            elif not derive_amb:
                run.violation('silent-choice', dict(definition=c['src'], witness_hex=whex, witness_context_prev_next=ctx, witness_text=bytes.fromhex(whex if whex != '-' else '').decode('utf-8', 'replace'),
                                                    tied_leaves=tops, derive_verdict=cap.verdict, derive_errors=cap.errs,
                                                    what='two patterns of equal top priority both match the witness, but the derive reports no ambiguity'),
                              key='silent|' + c['src'])
            else:
                groups = [sorted(g[1:]) for g in cap.gerrs if g[0] == 2]
                if not any(set(tops) <= set(g) for g in groups):
                    run.violation('wrong-names', dict(definition=c['src'], witness_hex=whex, tied_leaves=tops, reported_groups=groups,
                                                      what='the ambiguity error does not name the patterns that tie on the witness'),
                                  key='names|' + c['src'])
        elif v.startswith('FREE'):
            # what the user sees: a tie-free definition of these families has no other reason to be refused (nullable patterns and
            # definitions without a universal start state were set aside above; greedy dots, regex errors and non-UTF-8 patterns
            # are recognised by their own diagnostics) - a refusal that none of them explains is a spurious ambiguity report
            explained = [x for x in classes if x in ('greedy', 'regex_error', 'nonutf8', 'empty', 'nostart', 'undef_subpattern', 'variant_shape')]
            if cap.verdict == 'REJECT' and not derive_amb and not explained:
                run.violation('spurious-ambiguity', dict(definition=c['src'], derive_errors=cap.errs, closure=v,
                                                         what='the derive refuses the definition although no string is matched by two top-priority patterns and nothing else is wrong with it'),
                              key='spurious|' + c['src'])
            if derive_amb:
                run.violation('spurious-ambiguity', dict(definition=c['src'], derive_errors=cap.errs, closure=v,
                                                         what='the derive reports an ambiguity but no string is matched by two top-priority patterns (tieFreeB_sound / tieFreeCBFast_sound)'),
                              key='spurious|' + c['src'])
    st_same = sum(1 for i in range(len(cases)) if ans.get((i, 'STYPE'), '').startswith('SAME'))
    st_amb = sum(1 for i in range(len(cases)) if ans.get((i, 'STYPE'), '').startswith('SAME') and int(ans[(i, 'STYPE')].split(' ')[2]) > 0)
    st_diff = [dict(definition=cases[i]['src'], answer=ans[(i, 'STYPE')][:300]) for i in range(len(cases)) if ans.get((i, 'STYPE'), '').startswith('DIFF')][:5]
    run.coverage.update(dict(evaluations=n, distinct_nontrivial=ties, decided=decided, undecided_or_lookaround=unknown, lookaround_family=look_stats,
                             get_state_type_predicted=dict(same=st_same, with_ambiguity=st_amb, differ=st_diff,
                                                           note='StateType.stateType (Lean model of Graph::get_state_type, theorems stateType_accept_iff / stateType_ambiguous_iff / stateType_ambiguous_names) applied to the hook\'s dump of the leaves matching in every DFA state: every accept and every Disambiguation error of the real derive is recomputed; a difference alone is recorded, the tie decision above decides the property'),
                             rule='definitions built from a pool of overlapping patterns (equal explicit, default and distinct priorities), random regex pairs and the lexer corpus; '
                                  'the real derive\'s Disambiguation errors (captured with the leaves they name) vs the Lean tie search whose both answers are proved (tie_witness / tieFreeB_sound; tieC_witness / tieFreeCBFast_sound for patterns with look-around, where a tie is a string in a context); non-trivial = a tie exists',
                             samples=samples))
    run.assumptions += ['definitions with a nullable pattern or without a universal start state (rejected earlier by the derive) are outside the comparison',
                        'quantifier over definitions is sampled; each decided definition is decided for all strings']
    return run.finish()


# ------------------------------------------------------------------------------------------------
def check_c09(tier, seed, log=print):
    run = start('C09', tier, seed)
    R = random.Random(seed)
    cases = F.fam_c09(R, SIZES[tier]['c09'])
    gen = D.corpus(seed, 40 if tier == 'quick' else 300)
    for d in gen:
        ol = d.ordered_leaves()
        cases.append(dict(family='corpus', src=d.source('T'), meta=dict(corpus_leaves=[(l.kind, l.prio, (len(l.pat) if l.is_bytes else len(l.pat.encode('utf-8')))) for l in ol])))
    caps = P.run_capture([c['src'] for c in cases])
    ans = lean_queries(cases, caps, {i: ['PRIO', 'CLSOK'] for i in range(len(cases))})
    n = 0
    nontriv = set()
    samples = []
    for i, c in enumerate(cases):
        cap = caps[i]
        if cap is None or cap.nodump:
            continue
        pr = ans.get((i, 'PRIO'), '').split(' ')
        ok = ans.get((i, 'CLSOK'), '').split(' ')
        m = c['meta']
        exp = {}
        if 'corpus_leaves' in m:
            for li, (kind, prio, blen) in enumerate(m['corpus_leaves']):
                if prio is not None:
                    exp[li] = ('explicit', prio)
                elif kind == 'token':
                    exp[li] = ('token', 2 * blen)
                else:
                    exp[li] = ('complexity', None)
        else:
            if 'leaf' in m:
                exp[m['leaf']] = ('explicit', m['explicit']) if 'explicit' in m else ('complexity', None)
            for lf_ in m.get('complexity_leaves', []):
                exp[lf_] = ('complexity', None)
            # each written pattern is a leaf of its own, in order, with its own source (the default priority is that of the
            # pattern as written, not of whatever several patterns may have been combined into)
            if 'leaf_sources' in m:
                got_src = {}
                for l_ in cap.dump:
                    if l_.startswith('SRC '):
                        t_ = l_.split(' ')
                        got_src[int(t_[1])] = bytes.fromhex(t_[2]).decode('utf-8', 'replace') if len(t_) > 2 else ''
                want_src = m['leaf_sources']
                if [got_src.get(k_) for k_ in range(len(cap.leaves))] != want_src:
                    run.violation('priority', dict(definition=c['src'], leaves_written=want_src, leaves_of_the_derive=[got_src.get(k_) for k_ in range(len(cap.leaves))],
                                                   derive_priorities=[l_[0] for l_ in cap.leaves],
                                                   what='the leaves of the derive are not the patterns as written, one leaf each: a default priority is then not that of the pattern it belongs to'),
                                  key='leafsrc|' + c['src'])
            if 'token_leaf' in m and m['token_leaf'] < len(cap.leaves):
                exp[m['token_leaf']] = ('token', 2 * m['token_len'])
        for li, (why, val) in exp.items():
            if li >= len(cap.leaves) or li >= len(pr):
                continue
            n += 1
            got = cap.leaves[li][0]
            want = int(pr[li]) if why == 'complexity' else val
            if why == 'complexity' and int(pr[li]) not in (0, 2):
                nontriv.add((c['src'], li))
            if len(samples) < 6 and why == 'complexity' and want >= 4:
                samples.append(dict(definition=c['src'], leaf=li, priority=got))
            if got != want:
                run.violation('priority', dict(definition=c['src'], leaf=li, rule=why, derive_priority=got, expected=want,
                                               what='default priority differs from the documented rule (model Hir.complexity on the captured HIR / 2 x byte length / explicit value)'),
                              key='%s|%d' % (c['src'], li))
            if li < len(ok) and ok[li] != '1':
                run.violation('hir-shape', dict(definition=c['src'], leaf=li, what='captured class has an empty byte sequence: complexity_le_twice_len does not apply'), no_input=True)
    # the consequence the property draws: on its own text a literal token wins against a default-priority regex, or the
    # definition is refused as ambiguous (what the user gets: the verdict, and the lexer the captured graph describes)
    lq = {i: ['LEX n ' + c['meta']['literal']] for i, c in enumerate(cases) if c['family'] == 'c09-literal' and caps[i] is not None and caps[i].verdict == 'ACCEPT' and not caps[i].nodump}
    lans = lean_queries(cases, caps, lq) if lq else {}
    lit_stats = dict(pairs=0, literal_wins=0, refused_as_ambiguous=0)
    for i, c in enumerate(cases):
        if c['family'] != 'c09-literal' or caps[i] is None:
            continue
        lit_stats['pairs'] += 1
        n += 1
        cap = caps[i]
        if cap.verdict == 'REJECT':
            lit_stats['refused_as_ambiguous'] += 1
            continue
        v = lans.get((i, 'LEX n ' + c['meta']['literal']), '')
        ln = len(bytes.fromhex(c['meta']['literal']))
        if v.split(' ')[0] == '%s:0-%d' % (c['meta']['lit_name'], ln):
            lit_stats['literal_wins'] += 1
        else:
            run.violation('literal-beaten', dict(definition=c['src'], input_hex=c['meta']['literal'], input_text=bytes.fromhex(c['meta']['literal']).decode('utf-8'),
                                                 lexer_yields=v, what='on the literal\'s own text the accepted lexer does not yield the literal token'),
                          key='litbeaten|' + c['src'])
    run.coverage['literal_never_beaten'] = lit_stats
    run.coverage.update(dict(evaluations=n, distinct_nontrivial=len(nontriv),
                             rule='for every leaf of the family definitions and of the lexer corpus: priority recorded by the real derive vs Hir.complexity computed by the Lean model on the captured HIR (regex, skip), '
                                  '2 x byte length (token, with and without ignore(case)), or the explicit value; non-trivial = default priority not in {0, 2}',
                             samples=samples))
    return run.finish()


# ------------------------------------------------------------------------------------------------
def equiv_pass(run, cases, caps, prop, log):
    qs = {}
    for i, c in enumerate(cases):
        if 'pair' in c['meta']:
            a, b = c['meta']['pair']
            qs[i] = ['EQUIV %d %d %d' % (a, b, EQ_FUEL[run.tier])]
    ans = lean_queries(cases, caps, qs)
    n = eq = unknown = 0
    samples = []
    for i, c in enumerate(cases):
        cap = caps[i]
        m = c['meta']
        if 'expect_reject' in m:
            n += 1
            # only the rejection itself is required; which class the message text falls into is recorded by the samples
            if cap is None or cap.verdict != 'REJECT':
                run.violation('not-rejected', dict(definition=c['src'], verdict=cap.verdict if cap else None, errors=cap.errs if cap else None,
                                                   what='expected a compile error of class ' + m['expect_reject']), key='rej|' + c['src'])
            continue
        if 'pair' not in m:
            continue
        n += 1
        if cap is None or cap.nodump or cap.verdict == 'PANIC':
            run.violation('derive-failed', dict(definition=c['src'], verdict=cap.verdict if cap else None), no_input=True)
            continue
        if cap.verdict == 'REJECT' and not set(cap.err_classes()) <= {'ambiguous'}:
            # both forms must be accepted or rejected alike; a regex error in both is fine
            if 'regex_error' in cap.err_classes() and len(cap.leaves) == 0:
                continue
            if len(cap.leaves) < 2:
                run.violation('form-rejected', dict(definition=c['src'], errors=cap.errs, leaves=len(cap.leaves),
                                                    what='one of the two equivalent forms was rejected by the derive and the other was not'),
                              key='formrej|' + c['src'])
                continue
        a, b = m['pair']
        v = ans.get((i, 'EQUIV %d %d %d' % (a, b, EQ_FUEL[run.tier])), '')
        fs = run.coverage.setdefault('verdicts_by_family', {}).setdefault(c['family'], {})
        fs[v.split(' ')[0] or 'none'] = fs.get(v.split(' ')[0] or 'none', 0) + 1
        if v.startswith('EQ'):
            eq += 1
            if len(samples) < 5:
                samples.append(dict(definition=c['src'], verdict=v))
        elif v.startswith('NE'):
            _, whex, ma, mb = v.split(' ')[:4]
            run.violation('language-differs', dict(definition=c['src'], family=c['family'], witness_hex=whex,
                                                   witness_text=bytes.fromhex(whex if whex != '-' else '').decode('utf-8', 'replace'),
                                                   leaf_a_matches=ma, leaf_b_matches=mb,
                                                   what='the pattern as compiled by logos and its reference form denote different languages; the witness is matched by exactly one of them'),
                          key='ne|' + c['src'])
        elif v in ('BADWITNESS', 'CHECKFAIL'):
            run.violation('validator', dict(definition=c['src'], verdict=v), no_input=True)
        else:
            unknown += 1
    return n, eq, unknown, samples


def text_tie_search(run, prop):
    """when the text-pipeline tie is broken, search for a string on which the regex source the code built and the one the
    property prescribes (model) differ under the regex crate; a witness is a failing input, no witness leaves the difference
    recorded in the evidence only"""
    pairs = TP._LAST.get('pairs') or []
    if not pairs:
        return
    found = TP.distinguish(pairs, refmatch)
    run.coverage['text_pipeline_predicted']['distinguishing_inputs_found'] = len(found)
    for (pr, w, x, y) in found:
        run.violation('text-splice', dict(definition=pr['definition'], family=pr.get('family'),
                                          regex_source_prescribed=pr['model'][2].decode('utf-8', 'replace'), regex_source_built_by_the_code=pr['code'][2].decode('utf-8', 'replace'),
                                          flags_unicode_icase=dict(prescribed=pr['model'][:2], code=pr['code'][:2]),
                                          input_hex=None if w is None else (w.hex() or '-'), input_text=None if w is None else w.decode('utf-8', 'replace'),
                                          prescribed_matches=x, code_matches=y,
                                          what='the regex source handed to the regex parser is not the one the property prescribes (verbatim / (?i) literal, scoped textual inclusion of the '
                                               'subpattern source) and the two differ on this string under the regex crate'),
                      key='textsplice|%s|%s' % (pr['definition'], pr['code'][2].hex()))


def ignore_group_tie(run):
    """IgnoreFlags::parse_group against its Lean model (IgnoreGroup.parseGroup; wellFormed_sets_flag, flag_needs_case): token lists of
    the group, well-formed and malformed; observed on the real derive: refused or not, and whether the token became case-insensitive"""
    groups = [['case'], ['case', ','], ['case', ',', 'case'], ['case', ',', 'case', ','], [], [','], ['ascii_case'], ['Case'], ['case', 'case'],
              ['case', ',', ','], ['"x"'], ['case', ',', 'nope'], ['case', '=', '1'], ['nope', ',', 'case'], ['case', ',', 'ascii_case'], ['3'], ['case', ';'],
              [',', 'case'], ['case', ',', 'case', ',', 'case']]
    srcs = [F.enum([], ['#[token("k")] A,'])]
    for g in groups:
        srcs.append(F.enum([], ['#[token("k", ignore(%s))] A,' % ' '.join(g)]))
    caps = P.run_capture(srcs)
    plain = [l for l in caps[0].dump if l.startswith('HIR 0')]
    lines = ['CASE ig']
    qs = []
    for g in groups:
        toks = ['c' if t == ',' else ('i:' + t if t.isidentifier() else 'o') for t in g]
        q = 'Q IGNOREGRP ' + ' '.join(toks)
        qs.append(q)
        lines.append(q)
    ans = P.run_lean(lines, nproc=1)
    same = 0
    for g, q, cap in zip(groups, qs, caps[1:]):
        mv = ans.get('ig ' + q[2:], '')
        if cap is None or cap.verdict not in ('ACCEPT', 'REJECT'):
            continue
        real_err = cap.verdict == 'REJECT'
        real_flag = None if cap.nodump else ([l for l in cap.dump if l.startswith('HIR 0')] != plain)
        m = dict(x.split('=') for x in mv.split(' ')) if mv else {}
        ok = bool(m) and (int(m['errs']) > 0) == real_err and (real_err or real_flag is None or (m['flag'] == '1') == real_flag)
        if ok:
            same += 1
        else:
            run.violation('tie', dict(group='ignore(%s)' % ' '.join(g), model=mv, derive_verdict=cap.verdict, token_became_case_insensitive=real_flag,
                                      correspondence='IgnoreFlags::parse_group vs LogosModel.IgnoreGroup.parseGroup'), no_input=True, key='igtie|' + ' '.join(g))
            if not real_err and real_flag is False and 'case' in g and all(t in ('case', ',') for t in g) and g[0] == 'case' and ',,' not in ''.join(g):
                run.violation('flag-dropped', dict(definition=srcs[1 + groups.index(g)], what='an accepted spelling of ignore(case ...) leaves the token case-sensitive', input_text='K'),
                              key='igdrop|' + ' '.join(g))
    return dict(groups=len(groups), agree=same)


def check_c10(tier, seed, log=print):
    run = start('C10', tier, seed)
    R = random.Random(seed)
    cases = F.fam_c10(R, SIZES[tier]['c10'])
    caps = P.run_capture([c['src'] for c in cases])
    n, eq, unknown, samples = equiv_pass(run, cases, caps, 'C10', log)
    # tokens without ignore(case): captured HIR is the literal itself; priorities unchanged by ignore(case)
    lit_ok = 0
    for i, c in enumerate(cases):
        cap, m = caps[i], c['meta']
        if cap is None or cap.nodump or 'token_leaf' not in m:
            continue
        if not m['icase']:
            hl = [l for l in cap.dump if l.startswith('HIR %d ' % m['token_leaf'])]
            raw = bytes.fromhex(m['lit'])
            want = 'HIR %d 1 %d %s' % (m['token_leaf'], len(raw), ' '.join(str(x) for x in raw)) if raw else 'HIR %d 0' % m['token_leaf']
            if not hl or hl[0].strip() != want.strip():
                run.violation('literal-hir', dict(definition=c['src'], captured=hl[:1], expected=want,
                                                  what='a #[token] without ignore(case) is not compiled to the literal byte string'), key='lithir|' + c['src'])
            else:
                lit_ok += 1
        if 'expect_prio' in m and m['token_leaf'] < len(cap.leaves) and cap.leaves[m['token_leaf']][0] != m['expect_prio']:
            run.violation('priority-changed', dict(definition=c['src'], priority=cap.leaves[m['token_leaf']][0], expected=m['expect_prio'],
                                                   what='ignore(case) changed something else about the definition (priority)'), key='prio|' + c['src'])
    # "a #[token(w)] pattern matches exactly the byte string w": the lexer the derive built (its captured graph, interpreted by
    # the Lean model) has to yield the token on w itself - and, with ignore(case), on w with its ASCII letters in the other case
    tq = {}
    for i, c in enumerate(cases):
        cap, m = caps[i], c['meta']
        if cap is None or cap.nodump or cap.verdict != 'ACCEPT' or 'token_leaf' not in m or 'lit' not in m or not m['lit']:
            continue
        raw = bytes.fromhex(m['lit'])
        ws_ = [raw] + ([raw.swapcase()] if m['icase'] and raw.swapcase() != raw and (not m['unicode'] or P.is_valid_utf8(list(raw.swapcase()))) else [])
        tq[i] = ['LEX n ' + hexs(w_) for w_ in ws_]
    tans = lean_queries(cases, caps, tq) if tq else {}
    lex_ok = 0
    for i, qs_ in tq.items():
        for q_ in qs_:
            w_ = bytes.fromhex(q_.split(' ')[2])
            v_ = tans.get((i, q_), '')
            nm_ = caps[i].leaves[cases[i]['meta']['token_leaf']][3]
            if v_.split(' ')[0] == '%s:0-%d' % (nm_, len(w_)):
                lex_ok += 1
            elif v_:
                run.violation('literal-not-lexed', dict(definition=cases[i]['src'], input_hex=hexs(w_), input_text=w_.decode('utf-8', 'replace'), lexer_yields=v_,
                                                        what='the lexer built for this definition does not yield the token on the literal\'s own text'),
                              key='litlex|%s|%s' % (cases[i]['src'], hexs(w_)))
    run.coverage['literals_lexed_by_the_built_lexer'] = lex_ok
    # the regex crate itself as oracle: sampled strings against the captured HIR (Lean MATCH)
    reqs, keys, lq = [], [], {}
    for i, c in enumerate(cases):
        cap, m = caps[i], c['meta']
        if cap is None or cap.nodump or len(cap.leaves) == 0:
            continue
        if 'lit' in m:
            raw = bytes.fromhex(m['lit'])
            reqs.append('L %d %d %s' % (1 if m['unicode'] else 0, 1 if m['icase'] else 0, hexs(raw)))
            keys.append(None)
            ws = {raw, raw.upper(), raw.lower(), raw + b'a', raw[:-1], raw.swapcase()}
            if m['unicode']:
                s = raw.decode('utf-8')
                ws |= {s.upper().encode(), s.lower().encode(), s.title().encode(), s.casefold().encode()}
                ws = {w for w in ws if P.is_valid_utf8(list(w))}
        elif 'pattern' in m:
            p = bytes.fromhex(m['pattern']).decode('utf-8')
            reqs.append('P %d 1 %s' % (1 if m.get('unicode', True) else 0, hexs(p.encode('utf-8'))))
            keys.append(None)
            RR = random.Random(seed * 7 + i)
            ws = set()
            for _ in range(6):
                s = ''.join(RR.choice('abABcCkK éÉ') for _ in range(RR.choice([1, 2, 3])))
                ws.add(s.encode('utf-8'))
        else:
            continue
        for w in sorted(ws):
            reqs.append('W ' + hexs(w))
            keys.append((i, w))
            lq.setdefault(i, []).append('MATCH 0 ' + hexs(w))
    outs = refmatch(reqs)
    ans = lean_queries(cases, caps, lq)
    tc = 0
    badpat = False
    for k, o in zip(keys, outs):
        if k is None:
            badpat = (o != 'OK')
            continue
        if badpat:
            continue
        i, w = k
        mv = ans.get((i, 'MATCH 0 ' + hexs(w)))
        if mv in (None, 'L', '?') or o not in ('0', '1'):
            continue
        tc += 1
        if mv != o:
            run.violation('regex-crate', dict(definition=cases[i]['src'], family=cases[i]['family'], string_hex=hexs(w), string_text=w.decode('utf-8', 'replace'),
                                              regex_crate_matches=o, logos_pattern_matches=mv,
                                              what='the pattern logos compiled (captured HIR, Lean semantics) and the regex crate disagree on this string'),
                          key='rc|%s|%s' % (cases[i]['src'], hexs(w)))
    run.coverage['text_pipeline_predicted'] = TP.tie(cases, caps, P.run_lean)
    text_tie_search(run, 'C10')
    run.coverage['ignore_group_model'] = ignore_group_tie(run)
    import defgen
    run.coverage['structured_definitions'] = defgen.tie(run, seed + 100, 300 if tier == 'quick' else 3000, refmatch=refmatch)
    run.coverage.update(dict(evaluations=n + tc, distinct_nontrivial=eq, equivalences_proved=eq, undecided=unknown, literal_hirs_checked=lit_ok,
                             regex_crate_comparisons=tc,
                             rule='tokens (str and byte-string literals over metacharacters, cased non-ASCII, arbitrary bytes), regexes and skips, with and without ignore(case), each paired in one enum with an independently written reference form '
                                  '((?i:...) with the harness\'s own escaping); language equivalence decided for all strings by the proved checker equivB on the two captured HIRs; sampled strings also against the regex crate; non-trivial = equivalence established',
                             samples=samples))
    run.assumptions += ['the reference form goes through regex-syntax too; the regex crate comparison (sampled strings) ties the Lean semantics of the HIR to the crate']
    return run.finish()


def check_c11(tier, seed, log=print):
    run = start('C11', tier, seed)
    R = random.Random(seed)
    cases = F.fam_c11(R, SIZES[tier]['c11'])
    caps = P.run_capture([c['src'] for c in cases])
    n, eq, unknown, samples = equiv_pass(run, cases, caps, 'C11', log)
    run.coverage['text_pipeline_predicted'] = TP.tie(cases, caps, P.run_lean)
    text_tie_search(run, 'C11')
    import defgen
    run.coverage['structured_definitions'] = defgen.tie(run, seed + 200, 300 if tier == 'quick' else 3000, refmatch=refmatch)
    run.coverage.update(dict(evaluations=n, distinct_nontrivial=eq, equivalences_proved=eq, undecided=unknown,
                             rule='definitions with 1-3 subpatterns (alternations, inline flags, nested references, byte-string subpatterns), referenced at the start, middle and end of a pattern; '
                                  'each paired with the pattern obtained by independent inlining as (?u:src) / (?-u:src); equivalence decided for all strings by equivB; undefined names must be rejected; non-trivial = equivalence established',
                             samples=samples))
    run.assumptions += ['partial by nature: the semantic content lives in regex-syntax group scoping; the quantifier over definitions is sampled, each sampled equivalence is decided for all strings']
    return run.finish()


# ------------------------------------------------------------------------------------------------
ERRMAP = [
    ('Unexpected token in attribute', 'unexpected'),
    ('Expected a named argument at this position', 'positional'),
    ('Resetting previously set priority', 'dupprio'),
    ('Callback has been already set', 'dupcb'),
    ('Previous callback set here', None),
    ('Resetting previously set allow_greedy', 'dupgreedy'),
    ('Unknown nested attribute', 'unknown'),
    ('Expected: priority = <integer>', 'form-priority'),
    ('Expected: callback = ...', 'form-callback'),
    ('Expected: ignore(<flag>, ...)', 'form-ignore'),
    ('Expected: allow_greedy = ...', 'form-allow_greedy'),
]


def attr_err_classes(errs):
    out = []
    other = []
    for e in errs:
        for pat, cls in ERRMAP:
            if pat in e:
                if cls:
                    out.append(cls)
                break
        else:
            other.append(e)
    return sorted(out), other


def sig_of(cap):
    """what a permutation must not change: verdict, diagnostics, leaves (priority, kind, callback, pattern HIR), code"""
    if cap is None:
        return None
    if cap.verdict != 'ACCEPT':
        # a rejected definition has to be rejected in every order, with the same diagnostics; the text around the
        # compile_error! invocations (an impl with whichever duplicate came last) is nobody's lexer
        return (cap.verdict, tuple(sorted(cap.errs)))
    return (cap.verdict, tuple(sorted(cap.errs)), tuple(cap.leaves), tuple(l for l in cap.dump if l.startswith('HIR')), cap.code)


def lexer_sig(cap):
    """order-insensitive signature for #[logos(...)] item permutations (leaf numbering may change)"""
    if cap is None:
        return None
    hirs = {}
    for l in cap.dump:
        if l.startswith('HIR'):
            t = l.split(' ', 2)
            hirs[int(t[1])] = t[2] if len(t) > 2 else ''
    leaves = sorted((p, k, cb, nm, hirs.get(i, '')) for i, (p, k, cb, nm) in enumerate(cap.leaves))
    # the part of the generated code that does not depend on leaf numbering: the impl header with the crate path, generics and
    # the Error / Extras / Source types, and the error constructor (error callback)
    head = mk = None
    if cap.verdict == 'ACCEPT' and cap.codetext:
        t = cap.codetext
        head = t[:t.index('fn lex')] if 'fn lex' in t else t[:400]
        if 'fn _make_error' in t and 'fn _get_action' in t:
            mk = t[t.index('fn _make_error'):t.index('fn _get_action')]
    # what each leaf does once it has won (`_get_action`): one arm per leaf, compared as a multiset (round 29: a leaf that shares
    # the arm of another leaf runs that leaf's callback)
    arms = None
    if cap.verdict == 'ACCEPT' and cap.codetext:
        arms = tuple(sorted(action_arms(cap.codetext)))
    return (cap.verdict, tuple(sorted(cap.errs)), tuple(leaves), cap.utf8, head, mk, arms)


ARM = re.compile(r'_Option :: Some \(LogosLeaf :: Leaf\d+\) => \{')


def action_arms(codetext):
    """the bodies of the arms of `_get_action`, one per leaf, in leaf order (brace matching on the token text)"""
    if 'fn _get_action' not in codetext:
        return []
    t = codetext[codetext.index('fn _get_action'):]
    t = re.sub(r"b?'(\\.|[^\\'])'", "'c'", t)
    t = re.sub(r'b?"(\\.|[^\\"])*"', '"s"', t)
    out = []
    for m in ARM.finditer(t):
        depth, k = 1, m.end()
        while k < len(t) and depth:
            depth += t[k] == '{'
            depth -= t[k] == '}'
            k += 1
        out.append(t[m.end():k - 1].strip())
        if 'enum LogosLeaf' in t[:m.start()]:
            break
    return out


def check_c18(tier, seed, log=print):
    run = start('C18', tier, seed)
    R = random.Random(seed)
    cases = F.fam_c18(R, 15 if tier == 'quick' else 15) + F.fam_c18_logos(R, 25 if tier == 'quick' else 200)
    caps = P.run_capture([c['src'] for c in cases], code=True)
    # model answers for the argument lists
    lines = ['CASE m']
    for i, c in enumerate(cases):
        if 'tokens' in c['meta']:
            lines.append('Q ATTR 1 ' + ' '.join(c['meta']['tokens']))
    ans = P.run_lean(lines, nproc=1)
    groups = {}
    n = 0
    nontriv = set()
    samples = []
    tie_dis = 0
    for i, c in enumerate(cases):
        cap, m = caps[i], c['meta']
        if cap is None:
            continue
        n += 1
        if m.get('group') is not None:
            groups.setdefault(m['group'], []).append(i)
        if 'tokens' in m:
            mv = ans.get('m ATTR 1 ' + ' '.join(m['tokens']), '')
            fields = dict(x.split('=', 1) for x in mv.split(' ')) if mv else {}
            model_errs = sorted(x for x in fields.get('errs', '').split(',') if x)
            real_errs, other = attr_err_classes(cap.errs)
            # callback-shaped failures of parse_callback are outside the tokenizer model
            other = [e for e in other if 'greedy' not in e and 'Inline callbacks' not in e and 'Not a valid callback' not in e and 'unsigned integer' not in e and '`true` or `false`' not in e]
            if cap.verdict == 'PANIC':
                continue   # C19's business
            obs = None
            if cap.leaves and m['leaf'] < len(cap.leaves):
                lf = cap.leaves[m['leaf']]
                obs = dict(cb=bool(lf[2]))
            ok = (model_errs == real_errs)
            if ok and obs is not None and not model_errs:
                ok = (str(obs['cb']).lower() == fields.get('cb'))
            if not ok:
                tie_dis += 1
                run.violation('tie', dict(definition=c['src'], model=mv, real_error_classes=real_errs, real_errors=cap.errs, observed=obs,
                                          what='the tokenizer/parse_definition model (Attr.parseArgs, repaired rule) and the real parser disagree on this argument list',
                                          correspondence='T-D AttributeParser vs LogosModel.Attr'), no_input=True, key='attrtie|' + c['src'])
    arms_checked = 0
    for c, cap in zip(cases, caps):
        if cap is None or cap.verdict != 'ACCEPT' or not cap.codetext or not cap.leaves:
            continue
        arms = action_arms(cap.codetext)
        arms_checked += 1
        bad = None
        if len(arms) != len(cap.leaves):
            bad = '%d leaves, %d arms in _get_action' % (len(cap.leaves), len(arms))
        else:
            for k, (a, lf) in enumerate(zip(arms, cap.leaves)):
                if ('cb_result' in a) != bool(lf[2]):
                    bad = 'leaf %d %s a callback, its arm %s one' % (k, 'has' if lf[2] else 'has not', 'runs' if 'cb_result' in a else 'does not run')
                    break
        if bad:
            run.violation('leaf-action', dict(definition=c['src'], leaves=cap.leaves, arms=arms[:8], what='the generated code does not give every leaf an action of its own (%s): a match of one pattern runs what belongs to another - which one depends on the order of the items' % bad),
                          key='leafaction|' + c['src'])
    run.coverage['leaf_actions_checked'] = arms_checked
    for g, idxs in groups.items():
        logos_level = cases[idxs[0]]['family'] in ('c18-logos', 'c18-logos-pairs', 'c18-logos-overlap')
        # groups marked exact permute items that cannot move a leaf: the generated code itself must not change
        sigf = lexer_sig if logos_level else sig_of
        base = sigf(caps[idxs[0]])
        if len(idxs) > 2:
            nontriv.add(g)
        for j in idxs[1:]:
            if sigf(caps[j]) != base:
                a, b = caps[idxs[0]], caps[j]
                run.violation('order-dependent', dict(canonical=cases[idxs[0]]['src'], permuted=cases[j]['src'],
                                                      canonical_result=dict(verdict=a.verdict, errors=a.errs, leaves=a.leaves),
                                                      permuted_result=dict(verdict=b.verdict, errors=b.errs, leaves=b.leaves),
                                                      what='the same arguments in a different order give a different definition / verdict'),
                              key='order|' + cases[j]['src'])
                break
        if len(samples) < 4 and len(idxs) > 2:
            samples.append(dict(group=[cases[j]['src'].split('\n')[-3:] for j in idxs[:3]]))
    run.coverage['text_pipeline_predicted'] = TP.tie(cases, caps, P.run_lean)
    import defgen
    run.coverage['structured_definitions'] = defgen.tie(run, seed, 400 if tier == 'quick' else 4000, refmatch=refmatch)
    import logositems
    run.coverage['logos_items_predicted'] = logositems.tie(run, seed, 150 if tier == 'quick' else 2500)
    import genericstie
    run.coverage['impl_generics_predicted'] = genericstie.tie(run)
    run.coverage.update(dict(evaluations=n, distinct_nontrivial=len(nontriv), permutation_groups=len(groups),
                             rule='all permutations (with and without trailing comma, with and without a positional callback) of every subset of the named arguments, for #[token], #[regex] and skip(...); '
                                  'dependency-respecting permutations of #[logos(...)] items; every permutation must give the verdict, diagnostics, leaves and generated code of the first one; '
                                  'the abstract token lists are also run through the Lean model Attr.parseArgs and compared with the real parser (error classes, callback presence); non-trivial = group with >= 3 orders',
                             samples=samples, model_vs_impl_disagreements=tie_dis))
    return run.finish()


# ------------------------------------------------------------------------------------------------
# C17: strip_attributes + logos-cli
# ------------------------------------------------------------------------------------------------
import shutil, re as _re


def build_cli():
    tdir = os.path.join(P.HARNESS, 'target-cli')
    p = subprocess.run(['cargo', 'build', '--offline', '-p', 'logos-cli', '--manifest-path', '/repo/Cargo.toml', '--target-dir', tdir],
                       capture_output=True, text=True, env=dict(os.environ, CARGO_NET_OFFLINE='true'))
    if p.returncode != 0:
        return None, p.stderr[-2000:]
    return os.path.join(tdir, 'debug', 'logos-cli'), ''


def derive_tokens(src):
    """abstract tokens of every #[derive(...)] list in an enum source (for the model tie)"""
    out = []
    for m in _re.finditer(r'#\[derive\(([^)]*)\)\]', src):
        body = m.group(1)
        toks = []
        for t in _re.findall(r'[A-Za-z_][A-Za-z0-9_]*|::|,|\S', body):
            if t == ',':
                toks.append('c')
            elif t == '::':
                toks += ['p:58', 'p:58']
            elif _re.match(r'[A-Za-z_]', t):
                toks.append('i:' + t)
            else:
                toks.append('p:%d' % ord(t[0]))
        out.append(toks)
    return out


def check_c17(tier, seed, log=print):
    run = start('C17', tier, seed)
    R = random.Random(seed)
    cases = F.fam_c17(R, 60 if tier == 'quick' else 600)
    caps = P.run_capture([c['src'] for c in cases], code=True, strip=True)
    cli, err = build_cli()
    if cli is None:
        run.violation('cli-build', dict(stderr=err), no_input=True)
    wdir = os.path.join(P.WORK, 'c17')
    shutil.rmtree(wdir, ignore_errors=True)
    os.makedirs(wdir, exist_ok=True)
    n = 0
    nontriv = set()
    samples = []
    lean_lines = ['CASE s']
    tie_cases = []
    for i, c in enumerate(cases):
        cap = caps[i]
        n += 1
        if cap is None or cap.strip is None:
            run.violation('strip-failed', dict(definition=c['src'], what='strip_attributes panicked or produced nothing'), key='strip|' + c['src'])
            continue
        stripped = bytes.fromhex(cap.strip).decode('utf-8')
        if '::' in c['src'].split('pub enum')[0]:
            nontriv.add(i)
        if cap.stripchk != 'OK':
            run.violation('strip', dict(definition=c['src'], stripped=stripped, what=cap.stripchk), key='strip|' + c['src'])
        if cap.verdict == 'ACCEPT' and cap.codevalid is False:
            run.violation('invalid-rust', dict(definition=c['src'], what='generated implementation does not parse as Rust'), key='valid|' + c['src'])
        for toks in derive_tokens(c['src']):
            lean_lines.append('Q STRIPDERIVE ' + ' '.join(toks))
            tie_cases.append((i, toks))
        if len(samples) < 4 and i in nontriv:
            samples.append(dict(definition=c['src'], stripped=stripped[:300]))
    # model tie for the derive-list rewrite: the model's output must be the derive list found in the real output
    ans = P.run_lean(lean_lines, nproc=1)
    tie_dis = 0
    per_case = {}
    for (i, toks) in tie_cases:
        per_case.setdefault(i, []).append(ans.get('s STRIPDERIVE ' + ' '.join(toks), ''))
    for i, outs in per_case.items():
        cap = caps[i]
        if cap is None or cap.strip is None:
            continue
        stripped = bytes.fromhex(cap.strip).decode('utf-8')
        real = [''.join(t.split()) for t in _re.findall(r'#\s*\[\s*derive\s*\(([^)]*)\)\s*\]', stripped)]
        model = []
        for o in outs:
            s_ = ''
            for t in o.split(' '):
                if t.startswith('i:'):
                    s_ += t[2:]
                elif t == 'c':
                    s_ += ','
                elif t.startswith('p:'):
                    s_ += chr(int(t[2:]))
            model.append(s_)
        if real != model:
            tie_dis += 1
            run.violation('tie', dict(definition=cases[i]['src'], real_derive_lists=real, model_derive_lists=model,
                                      correspondence='strip_attributes derive rewrite vs LogosModel.Strip.stripFixed'), no_input=True, key='striptie|' + cases[i]['src'])
    # logos-cli: output = stripped enum + implementation; sequences of write / check invocations
    cli_runs = 0
    if cli is not None:
        cq = ['CASE c']
        seqs = []
        bseqs = []
        for i, c in enumerate(cases[: (25 if tier == 'quick' else 200)]):
            cap = caps[i]
            if cap is None or cap.strip is None or cap.codetext is None:
                continue
            inp = os.path.join(wdir, 'in%d.rs' % i)
            outp = os.path.join(wdir, 'out%d.rs' % i)
            open(inp, 'w').write(c['src'])
            expected = bytes.fromhex(cap.strip).decode('utf-8') + cap.codetext
            RR = random.Random(seed * 31 + i)
            ops = [RR.choice(['write', 'check', 'check', 'corrupt', 'crlf', 'delete', 'append_nl', 'empty', 'append_stale', 'drop_last_line', 'check', 'write'])
                   for _ in range(8)]
            ops = ['check'] + ops   # check on a missing file first
            state = None
            for op in ops:
                if op == 'corrupt':
                    open(outp, 'w').write('some random data')
                    state = 'some random data'
                    continue
                if op == 'crlf' and state is not None:
                    state = state.replace('\r\n', '\n').replace('\n', '\r\n')
                    open(outp, 'w', newline='').write(state)
                    continue
                if op == 'append_nl' and state is not None:
                    state = state + '\n'
                    open(outp, 'w', newline='').write(state)
                    continue
                if op == 'empty':
                    open(outp, 'w').write('')
                    state = ''
                    continue
                if op == 'append_stale' and state is not None:
                    state = state + ('' if state.endswith('\n') or state == '' else '\n') + '// stale line\n'
                    open(outp, 'w', newline='').write(state)
                    continue
                if op == 'drop_last_line' and state is not None:
                    ls = state.split('\n')
                    state = '\n'.join(ls[:-2] + ['']) if len(ls) > 2 else ''
                    open(outp, 'w', newline='').write(state)
                    continue
                if op == 'delete':
                    if os.path.exists(outp):
                        os.remove(outp)
                    state = None
                    continue
                if op not in ('write', 'check'):
                    continue
                args = [cli, inp, '--output', outp] + (['--check'] if op == 'check' else [])
                p = subprocess.run(args, capture_output=True, text=True)
                cli_runs += 1
                after = open(outp, newline='').read() if os.path.exists(outp) else None
                seqs.append((i, op, state, p.returncode, after, expected))
                state = after
        # every definition of the families once through the real binary (standard output): what the tool prints is the
        # enum as strip_attributes returns it (compared structurally with the input above) followed by the implementation
        # the derive generates - also for the definitions the sequences below do not reach (generic headers, field types
        # with lifetimes, type parameters with concrete types)
        nstdout = 0
        for i, c in enumerate(cases):
            cap = caps[i]
            if cap is None or cap.strip is None or cap.codetext is None:
                continue
            inp = os.path.join(wdir, 'sin%d.rs' % i)
            open(inp, 'w').write(c['src'])
            p = subprocess.run([cli, inp], capture_output=True, text=True)
            cli_runs += 1
            nstdout += 1
            expected = bytes.fromhex(cap.strip).decode('utf-8') + cap.codetext
            if p.returncode != 0 or p.stdout.splitlines() != expected.splitlines():
                k_ = next((j for j, (a_, b_) in enumerate(zip(p.stdout, expected)) if a_ != b_), min(len(p.stdout), len(expected)))
                run.violation('cli', dict(definition=c['src'], op='print', exit=p.returncode, printed_around_first_difference=p.stdout[max(0, k_ - 80):k_ + 80],
                                          expected_around_first_difference=expected[max(0, k_ - 80):k_ + 80],
                                          what='what logos-cli prints is not (the enum with the logos attributes and the Logos derive removed) followed by (the implementation the derive generates)'),
                              key='cliprint|%s' % c['src'])
        run.coverage['cli_printed_outputs_compared'] = nstdout
        # directed: every class of file state relative to the expected output x (write | check), then a check.  The file is handled
        # as bytes: it may not be valid UTF-8 (one byte of the expected output replaced by 0xff; a U+FFFD of the output replaced by
        # a lone 0xff, which a lossy decoder maps back to U+FFFD)
        ndirected = 0
        dcases = list(enumerate(cases[: (4 if tier == 'quick' else 16)])) + [(j, c) for j, c in enumerate(cases) if c['family'] == 'c17-replacement-char']
        for i, c in dcases:
            cap = caps[i]
            if cap is None or cap.strip is None or cap.codetext is None:
                continue
            inp = os.path.join(wdir, 'in%d.rs' % i)
            open(inp, 'w').write(c['src'])
            outp = os.path.join(wdir, 'dout%d.rs' % i)
            expected = bytes.fromhex(cap.strip).decode('utf-8') + cap.codetext
            eb = expected.encode('utf-8')
            half = len(expected) // 2
            pre_states = [None, '', 'short garbage', expected + '\n// a longer file than the output\n' * 3, 'x' * (len(expected) + 57), expected,
                          expected.replace('\n', '\r\n'), expected + '\n', expected + '\n// stale line\n', '\n'.join(expected.split('\n')[:-1]),
                          expected[:half], expected[:half] + ('#' if expected[half] != '#' else '%') + expected[half + 1:], expected + expected]
            pre_states = [None if x is None else x.encode('utf-8') for x in pre_states]
            pre_states += [eb[:half] + b'\xff' + eb[half + 1:], eb + b'\xc3', b'\xff\xfe' + eb]
            if b'\xef\xbf\xbd' in eb:
                pre_states += [eb.replace(b'\xef\xbf\xbd', b'\xff'), eb.replace(b'\xef\xbf\xbd', b'\xef\xbf', 1)]
            for pre in pre_states:
                for op in ('write', 'check'):
                    if pre is None:
                        if os.path.exists(outp):
                            os.remove(outp)
                    else:
                        open(outp, 'wb').write(pre)
                    state = pre
                    for op2 in (op, 'check'):
                        args = [cli, inp, '--output', outp] + (['--check'] if op2 == 'check' else [])
                        p = subprocess.run(args, capture_output=True, text=True)
                        cli_runs += 1
                        ndirected += 1
                        after = open(outp, 'rb').read() if os.path.exists(outp) else None
                        bseqs.append((i, op2, state, p.returncode, after, eb))
                        state = after
        def is_utf8(b_):
            try:
                b_.decode('utf-8')
                return True
            except UnicodeDecodeError:
                return False
        bq = ['CASE c'] + ['Q CLI %d %s %s' % (1 if op == 'check' else 0, 'none' if before is None else hexs(before), hexs(eb)) for (i, op, before, rc, after, eb) in bseqs]
        bans = P.run_lean(bq, nproc=1)
        for (i, op, before, rc, after, eb) in bseqs:
            readable = before is not None and is_utf8(before)
            holds = readable and before.decode('utf-8').splitlines() == eb.decode('utf-8').splitlines()
            msg = None
            if op == 'check':
                if after != before:
                    msg = '--check modified the output file'
                elif (rc == 0) != holds:
                    msg = '--check exit status %d although the file %s the expected output' % (rc, 'holds' if holds else 'does not hold')
            elif before is not None and not readable:
                # an existing file that cannot be read as text: the tool may stop with an error and leave it, or replace it
                if not ((rc != 0 and after == before) or (rc == 0 and after is not None and is_utf8(after) and after.decode('utf-8').splitlines() == eb.decode('utf-8').splitlines())):
                    msg = 'write on an unreadable file: exit status %d and the file is neither untouched nor the expected output' % rc
            else:
                if rc != 0:
                    msg = 'write failed'
                elif after is None or not is_utf8(after) or after.decode('utf-8').splitlines() != eb.decode('utf-8').splitlines():
                    msg = 'file after write is not (stripped enum + implementation)'
            if msg:
                run.violation('cli', dict(definition=cases[i]['src'], op=op, exit=rc, file_before_hex=(before or b'')[:120].hex(), file_readable=readable, what=msg),
                              key='cli|%s|%s' % (cases[i]['src'], op))
            q = 'c CLI %d %s %s' % (1 if op == 'check' else 0, 'none' if before is None else hexs(before), hexs(eb))
            mv = bans.get(q, '')
            real = '%s %s' % ('ok' if rc == 0 else 'failed', 'none' if after is None else hexs(after))
            if mv and mv != real:
                tie_dis += 1
                if not msg:
                    run.violation('tie', dict(definition=cases[i]['src'], op=op, model=mv[:100], real=real[:100],
                                              correspondence='logos-cli main vs LogosModel.Strip.cliRunFile'), no_input=True, key='clitie|%s|%s' % (cases[i]['src'], op))
        for (i, op, before, rc, after, expected) in seqs:
            cq.append('Q CLI %d %s %s' % (1 if op == 'check' else 0, 'none' if before is None else hexs(before.encode('utf-8')), hexs(expected.encode('utf-8'))))
        mans = P.run_lean(cq, nproc=1)
        for (i, op, before, rc, after, expected) in seqs:
            # property oracle
            msg = None
            holds = before is not None and before.splitlines() == expected.splitlines()
            if op == 'check':
                if after != before:
                    msg = '--check modified the output file'
                elif (rc == 0) != holds:
                    msg = '--check exit status %d although the file %s the expected output' % (rc, 'holds' if holds else 'does not hold')
            else:
                if rc != 0:
                    msg = 'write failed'
                elif after is None or after.splitlines() != expected.splitlines():
                    msg = 'file after write is not (stripped enum + implementation)'
            if msg:
                run.violation('cli', dict(definition=cases[i]['src'], op=op, exit=rc, file_before=(before or '')[:200], what=msg),
                              key='cli|%s|%s' % (cases[i]['src'], op))
            q = 'c CLI %d %s %s' % (1 if op == 'check' else 0, 'none' if before is None else hexs(before.encode('utf-8')), hexs(expected.encode('utf-8')))
            mv = mans.get(q, '')
            real = '%s %s' % ('ok' if rc == 0 else 'failed', 'none' if after is None else hexs(after.encode('utf-8')))
            if mv and mv != real:
                tie_dis += 1
                if not msg:
                    run.violation('tie', dict(definition=cases[i]['src'], op=op, model=mv[:100], real=real[:100],
                                              correspondence='logos-cli main vs LogosModel.Strip.cliRun'), no_input=True, key='clitie|%s|%s' % (cases[i]['src'], op))
    run.coverage.update(dict(evaluations=n + cli_runs, distinct_nontrivial=len(nontriv), cli_invocations=cli_runs, cli_directed_invocations=ndirected if cli is not None else 0,
                             rule='enum sources with derives in every position (plain, path-qualified, leading ::, several derive attributes, trailing commas), cfg_attr, repr, doc comments, variant and field attributes; '
                                  'strip_attributes output compared structurally (syn) with the input: same header, variants, fields, every non-logos attribute, derive paths minus Logos; generated code parses as a Rust file; '
                                  'the real logos-cli binary run through random sequences of write / --check / corrupt / CRLF-convert / delete / empty file / stale trailing lines / dropped last line with file snapshots, and directed: every class of existing file (missing, empty, shorter, longer, equal, CRLF, extra newline, stale tail, truncated, one byte changed, doubled) x (write | --check) followed by --check; non-trivial = input has a path-qualified derive',
                             samples=samples, model_vs_impl_disagreements=tie_dis))
    run.assumptions += ['--format (rustfmt) is not exercised', 'which paths "denote Logos" is taken as: last path segment is `Logos`']
    return run.finish()


# ------------------------------------------------------------------------------------------------
# C19: the derive never panics and rejects what it cannot implement
# ------------------------------------------------------------------------------------------------
def check_c19(tier, seed, log=print):
    import rustc_ui as U
    run = start('C19', tier, seed)
    R = random.Random(seed)
    cases = F.fam_c19(R, 120 if tier == 'quick' else 1500)
    iso = [i for i, c in enumerate(cases) if 'resource exhaustion' in c['meta'].get('note', '')]
    caps = P.run_capture([c['src'] for c in cases], code=True, isolated=iso)
    # library entry point
    n = 0
    nontriv = set()
    samples = []
    verdicts = {}
    reason_mismatch = []
    for i, c in enumerate(cases):
        cap, m = caps[i], c['meta']
        v = cap.verdict if cap else 'NONE'
        verdicts[v] = verdicts.get(v, 0) + 1
        if v in ('NOTENUM', 'LEXERR'):
            continue
        n += 1
        if m['expect'] != 'any' or 'mutation' in m.get('note', ''):
            nontriv.add(i)
        msg = None
        if v == 'PANIC':
            msg = 'logos_codegen::generate panicked: ' + (cap.panic_msg or '')
        elif v == 'CRASH':
            msg = 'the derive does not terminate gracefully: ' + (cap.panic_msg or '')
        elif m['expect'] == 'reject' and v != 'REJECT':
            msg = 'a definition that cannot be implemented faithfully (%s) was accepted' % (m.get('note') or m.get('cls'))
        elif m['expect'] == 'reject' and m.get('cls') and m['cls'] not in cap.err_classes():
            # the property asks for a compile error, not for a particular wording: recorded, not reported (the class is read off
            # the message text, which a maintainer may reword)
            reason_mismatch.append(dict(definition=c['src'], expected_class=m['cls'], classes=cap.err_classes()))
        elif m['expect'] == 'accept' and v != 'ACCEPT':
            msg = 'a valid definition was rejected: %s' % cap.errs[:1]
        elif m['expect'] == 'noreject-greedy' and 'greedy' in cap.err_classes():
            msg = 'allow_greedy = true did not suppress the greedy-dot diagnostic'
        elif v == 'ACCEPT' and cap.codevalid is False:
            msg = 'the derive reports nothing and returns an implementation that is not Rust (syn cannot parse it as a file)'
        elif 'pair' in m and m['pair'] < len(caps) and caps[m['pair']] is not None and m['note'].endswith('tight form'):
            other = caps[m['pair']]
            if other.verdict != v:
                msg = 'written without blanks the definition is %s, with blanks it is %s (%s)' % (v, other.verdict, (cap.errs or other.errs)[:1])
            elif v == 'ACCEPT' and other.code != cap.code:
                msg = 'written without blanks the definition gets a different implementation than with blanks'
        if msg:
            run.violation('derive', dict(definition=c['src'], entry='logos_codegen::generate under catch_unwind', verdict=v, what=msg, note=m.get('note')),
                          key='%s|%s' % ('crash' if v == 'CRASH' else 'derive', c['src']))
        elif len(samples) < 5 and m['expect'] == 'reject':
            samples.append(dict(definition=c['src'], verdict=v, classes=cap.err_classes()))
    # model ties: nullable and greedy decisions on the captured HIR
    qs = {i: ['NULLABLE', 'GREEDY'] for i, c in enumerate(caps) if c is not None and not c.nodump and c.verdict in ('ACCEPT', 'REJECT')}
    ans = lean_queries(cases, caps, qs)
    tie = 0
    for i in qs:
        cap = caps[i]
        nul = ans.get((i, 'NULLABLE'), '').split(' ')
        gr = ans.get((i, 'GREEDY'), '').split(' ')
        src = cases[i]['src']
        if '1' in nul and cap.verdict == 'ACCEPT':
            run.violation('nullable-accepted', dict(definition=src, nullable_leaves=nul, what='a pattern can match the empty string (Lean nullable on the captured HIR) but the definition was accepted'),
                          key='nullable|' + src)
        if 'allow_greedy' not in src and 'mutation' not in cases[i]['meta'].get('note', ''):
            tie += 1
            model_greedy = '1' in gr
            real_greedy = 'greedy' in cap.err_classes()
            if model_greedy and not real_greedy:
                run.violation('greedy-accepted', dict(definition=src, greedy_leaves=gr, verdict=cap.verdict, errors=cap.errs,
                                                      what='the pattern contains an unbounded greedy dot repetition (model Hir.greedyFixed = HasGreedyDot) but no diagnostic was emitted'),
                              key='greedy|' + src)
            elif real_greedy and not model_greedy:
                run.violation('tie', dict(definition=src, what='greedy diagnostic without a greedy dot in the captured HIR', correspondence='has_greedy_all vs Hir.greedyFixed'),
                              no_input=True, key='greedytie|' + src)
    # through rustc as a real procedural macro (stable): no "proc-macro derive panicked"; accepted ones compile
    ui_idx = [i for i, c in enumerate(cases) if i not in iso and (caps[i] is None or caps[i].verdict not in ('NOTENUM', 'LEXERR'))]
    if tier == 'quick':
        ui_idx = ui_idx[:260]
    # accepted definitions whose callbacks are functions defined next to the enum (only rustc can judge them): names a user may
    # well choose and the generated code may use itself
    HYG = [F.HDR + '\npub enum T {\n    #[regex("[a-z]+", %s)] A,\n    #[token("=")] Eq,\n}\nfn %s<\'s>(_lex: &mut logos::Lexer<\'s, T>) {}' % (nm, nm)
           for nm in ('state0', 'state1', 'lex', 'offset', 'context', 'cb_result', 'token', 'action', 'callback')]
    # ... and inline callbacks that *call* a function of such a name (the body is pasted where `offset` and `context` are locals)
    HYG += [F.HDR + '\npub enum T {\n    #[regex("[a-z]+", |lex| %s(lex.slice()))] A(usize),\n    #[token("=")] Eq,\n}\nfn %s(s: &str) -> usize { s.len() }' % (nm, nm)
            for nm in ('offset', 'context', 'measure')]
    # inline callbacks whose body leaves early: `return` and `?` are part of what a closure may contain (the body is pasted into a
    # function of the generated code, so they have to leave the closure, not that function); the last two are controls
    NHYG = len(HYG)
    HYG += [F.HDR + '\npub enum T {\n    %s\n    #[token("=")] Eq,\n}' % v for v in (
        '#[regex("[a-z]+", |lex| { if lex.slice().len() > 3 { return false; } true })] A,',
        '#[regex("[0-9]+", |lex| { let n: u8 = lex.slice().parse().ok()?; Some(n) })] A(u8),',
        '#[regex("[a-z]+", |lex| lex.slice().len() > 3)] A,',
        '#[regex("[0-9]+", |lex| lex.slice().parse::<u8>().ok())] A(u8),')]
    # a concrete type that mentions another declared parameter (D18: the impl header has to be rewritten like the fields)
    NHYG2 = len(HYG)
    HYG += [F.HDR + '\n#[logos(type A = Vec<B>, type B = u8)]\npub enum T<A, B> {\n    #[regex("[a-z]+", |_| Vec::new())] X(A),\n    #[regex("[0-9]+", |_| 1u8)] Y(B),\n}',
            F.HDR + '\n#[logos(type A = B, type B = u8)]\npub enum T<A, B> {\n    #[regex("[a-z]+", |_| 1u8)] X(A),\n    #[regex("[0-9]+", |_| 2u8)] Y(B),\n}',
            F.HDR + '\n#[logos(type A = (B, C), type B = Vec<C>, type C = u8)]\npub enum T<A, B, C> {\n    #[regex("[a-z]+", |_| (Vec::new(), 1u8))] X(A),\n    #[regex("[0-9]+", |_| Vec::new())] Y(B),\n    #[token("=", |_| 1u8)] Z(C),\n}']
    # (a crate of their own: the malformed stream stops rustc before it checks types)
    per_h, other_h, rc_h, err_h = U.run_ui('ui19h', HYG)
    per, other, rc, err = U.run_ui('ui19', [cases[i]['src'] for i in ui_idx])
    run.coverage['callbacks_named_like_generated_items'] = dict(cases=len(HYG), compile=sum(1 for m_ in per_h if not m_))
    for src_h, msgs in zip(HYG, per_h):
        if msgs:
            run.violation('does-not-compile', dict(definition=src_h, messages=msgs[:3], entry='rustc (stable) procedural macro, default (tail-call) code generator',
                                                   what=('the derive accepts the definition and the implementation it returns does not compile: the name of the callback is taken by an item of the generated code'
                                                         if HYG.index(src_h) < NHYG else
                                                         'the derive accepts the definition and the implementation it returns does not compile: `return` / `?` in the body of an inline callback leave the generated function the body is pasted into, not the closure'
                                                         if HYG.index(src_h) < NHYG2 else
                                                         'the derive accepts the definition and the implementation it returns does not compile: the concrete type of a type parameter mentions another declared parameter, which the impl header does not rewrite')),
                          key='uicompile|' + src_h)
    ui_panics = 0
    for i, msgs in zip(ui_idx, per):
        pan = [m_ for m_ in msgs if 'panicked' in m_]
        if pan:
            ui_panics += 1
            run.violation('proc-macro-panic', dict(definition=cases[i]['src'], entry='rustc (stable) procedural macro', messages=msgs[:3],
                                                   what='proc-macro derive panicked'), key='uipanic|' + cases[i]['src'])
        elif any('unparsable tokens' in m_ for m_ in msgs):
            run.violation('derive', dict(definition=cases[i]['src'], entry='rustc (stable) procedural macro', messages=msgs[:3],
                                         what='the derive returned tokens rustc cannot parse, instead of a diagnostic'), key='uiunparsable|' + cases[i]['src'])
        elif cases[i]['meta']['expect'] == 'accept' and msgs:
            run.violation('does-not-compile', dict(definition=cases[i]['src'], messages=msgs[:3], what='an accepted definition does not compile'),
                          key='uicompile|' + cases[i]['src'])
    if rc not in (0, 101) or any('panicked' in o for o in other):
        run.violation('rustc', dict(stderr=err[-1500:], other=other[:3], what='the rustc run failed in an unexpected way'), no_input=True)
    run.coverage['rejected_for_another_reason_than_expected'] = reason_mismatch[:10]
    import assemble_tie
    run.coverage['leaf_assembly_model'] = assemble_tie.tie_specs(run)
    import typesubsttie
    run.coverage['type_substitution_model'] = typesubsttie.tie(run, seed, 120 if tier == 'quick' else 2500)
    run.coverage.update(dict(evaluations=n + len(ui_idx), distinct_nontrivial=len(nontriv), verdicts=verdicts, rustc_cases=len(ui_idx),
                             greedy_decisions_compared=tie,
                             rule='malformed stream: variant shapes (empty/multi/named fields), malformed and duplicated attribute arguments, #[logos(...)] shapes, generics, nullable patterns, look-behind at the token start, '
                                  'unsupported regex features, greedy dots at every depth with and without allow_greedy, undefined subpatterns, non-UTF-8 patterns in str mode, and argument-level mutations of a valid definition; '
                                  'each run through logos_codegen::generate under catch_unwind and through rustc as a real derive; expected rejections by class; nullable/greedy decisions compared with the Lean model on the captured HIR; non-trivial = has a definite expectation or is a mutation',
                             samples=samples))
    run.assumptions += ['partial: the model covers logos\'s decision logic (variant shapes, greedy check, nullability), not syn or rustc',
                        'inputs that are not enum items are never handed to the derive by rustc and are excluded']
    return run.finish()


# ------------------------------------------------------------------------------------------------
# C16: deterministic code generation
# ------------------------------------------------------------------------------------------------
def check_c16(tier, seed, log=print):
    run = start('C16', tier, seed)
    R = random.Random(seed)
    corpus = D.corpus(seed, 50 if tier == 'quick' else 400)
    srcs = [d.source('T') for d in corpus]
    # a few definitions with large classes: many states, edges and LUTs (more hash-container traffic)
    srcs += [F.enum(['#[logos(skip "[ \\t\\n]+")]'], ['#[regex("\\\\w+")] Word,', '#[regex("\\\\d+", priority = 5)] Num,', '#[regex("[\\\\p{Greek}]+")] Greek,', '#[token("λ")] Lambda,']),
             F.enum([], ['#[regex("[a-f]+x")] A,', '#[regex("[g-m]+y")] B,', '#[regex("[n-z]+z")] C,', '#[regex("[0-4]+w")] Dd,', '#[regex("[5-9]+v")] E,', '#[regex("[!-/]+u")] Ff,']),
             F.enum([], ['#[regex("a", priority = 1)] A,', '#[regex("[a-z]", priority = 1)] B,', '#[regex("[a-c]", priority = 1)] C,'])]
    # (round 29) generated names: `lifetime = none` on enums that declare the names the fresh lifetime would take
    srcs += [F.enum(['#[logos(lifetime = none)]'], ["#[regex(\"[a-z]+\", |lex| \"x\")] At(&'s str),", '#[token("=")] Eq,'], name="T<'s>"),
             F.enum(['#[logos(lifetime = none)]'], ["#[regex(\"[a-z]+\", |lex| \"x\")] At(&'s str),", "#[regex(\"[0-9]+\", |lex| \"y\")] Bt(&'s_ str),"], name="T<'s, 's_>"),
             F.enum(['#[logos(lifetime = none)]'], ["#[regex(\"[a-z]+\", |lex| \"x\")] At(&'a str),"], name="T<'a>")]
    srcs += [c['src'] for c in F.fam_c08(R, 30)]
    # definitions that share the text of a literal but differ in its context (the subpattern a reference is bound to, the
    # flags, the lexer mode): the output for a definition must not depend on what was generated before it
    c11 = [c['src'] for c in F.fam_c11(random.Random(seed), 6) if c['family'] in ('c11-nested', 'c11-edges', 'c11-sub')]
    srcs += c11[:6] + c11[60:72] + c11[-6:]
    srcs += [F.enum([], ['#[token("ab")] A,']), F.enum([], ['#[token("ab", ignore(case))] A,']), F.enum(['#[logos(utf8 = false)]'], ['#[token("ab")] A,']),
             F.enum([], ['#[regex("a|é")] A,']), F.enum(['#[logos(utf8 = false)]'], ['#[regex("a|é")] A,']), F.enum([], ['#[regex("a|é", ignore(case))] A,'])]
    # definitions with several independent diagnostics: their order is part of the output
    srcs += [F.enum(['#[logos(subpattern a = "(")]', '#[logos(subpattern b = "[z-a]")]', '#[logos(subpattern c = b"\\xff")]', '#[logos(subpattern d = "x{2,1}")]', '#[logos(subpattern e = "(?-u:\\x80)")]'],
                    ['#[regex("[a-z]+")] W,']),
             F.enum([], ['#[regex("(")] A,', '#[regex("[z-a]")] B,', '#[regex("a*")] C,', '#[regex(".*q")] D,', '#[regex("(?&nope)")] E,', '#[token("x", priority = 1, priority = 2)] G,']),
             F.enum(['#[logos(extras = u8, extras = u16, error = E1, error = E2, utf8 = true, utf8 = false)]'], ['#[regex("a")] A,', '#[regex("a")] B,', '#[regex("[a-b]")] C,', '#[token("b")] D,']),
             F.enum(['#[logos(skip "(", skip "[z-a]", skip ")", bogus, other = 3)]'], ['#[token("k")] K(u8, u8),', '#[token("l")] L { x: u8 },', '#[token("m")] M(),'])]
    # diagnostics that have candidates to choose from or to list (an undefined reference next to several similar names, several
    # undefined references, unknown items next to known ones): what they say must not depend on a container's iteration order
    srcs += [F.enum(['#[logos(subpattern hex2 = "[0-9a-f]{2}")]', '#[logos(subpattern hex4 = "[0-9a-f]{4}")]', '#[logos(subpattern hex6 = "[0-9a-f]{6}")]',
                     '#[logos(subpattern hex8 = "[0-9a-f]{8}")]'], ['#[regex("(?&hex)+")] A,', '#[regex("x(?&hx2)")] B,', '#[regex("#(?&hex2)")] C,']),
             F.enum(['#[logos(subpattern ab = "a")]', '#[logos(subpattern ac = "b")]', '#[logos(subpattern ad = "c")]', '#[logos(subpattern ba = "d")]', '#[logos(subpattern ca = "e")]',
                     '#[logos(skip "(?&aa)+")]'], ['#[regex("(?&aa)|(?&bb)|(?&a)")] A,', '#[token("x")] X,']),
             F.enum(['#[logos(subpattern digit = "[0-9]", subpattern digits = "(?&digit)+", subpattern Digit = "[0-9]", subpattern digit_ = "[0-9]_")]'],
                    ['#[regex("(?&digi)")] A,', '#[regex("(?&digitt)")] B,']),
             F.enum(['#[logos(skipp " ", extra = u8, errors = E, utf = true, sub pattern x = "a", crates = logos)]'], ['#[token("k", prioritty = 3, calback = f, ignor(case), alow_greedy = true)] K,'])]
    builds = {}
    bdir = os.path.join(P.HARNESS, 'target', 'debug', 'capture')
    builds['tailcall'] = bdir
    p = subprocess.run(['cargo', 'build', '--offline', '-p', 'capture', '--features', 'sm', '--target-dir', os.path.join(P.HARNESS, 'target-sm')],
                       cwd=P.HARNESS, capture_output=True, text=True, env=dict(os.environ, CARGO_NET_OFFLINE='true'))
    if p.returncode == 0:
        builds['state_machine'] = os.path.join(P.HARNESS, 'target-sm', 'debug', 'capture')
    else:
        run.violation('build', dict(stderr=p.stderr[-1500:]), no_input=True)
    text = '\n----\n'.join(srcs) + '\n'
    n = 0
    nontriv = set()
    samples = []
    nproc = 3 if tier == 'quick' else 8
    nthreads = 8 if tier == 'quick' else 16
    for gen, binp in builds.items():
        runs = []
        for k in range(nproc):
            o = subprocess.run([binp, '--threads', str(nthreads)] + (['--reverse'] if k % 2 else []), input=text, capture_output=True, text=True).stdout
            runs.append(o)
        # one thread, first to last and last to first: whatever a definition's output inherits from definitions generated
        # earlier in the process differs between these two
        for extra in ([], ['--reverse']):
            runs.append(subprocess.run([binp, '--threads', '1'] + extra, input=text, capture_output=True, text=True).stdout)
        table = {}
        for k, o in enumerate(runs):
            for ln in o.split('\n'):
                t = ln.split(' ')
                if len(t) >= 4 and t[0] == 'T':
                    table.setdefault(int(t[2]), []).append((k, int(t[1]), ' '.join(t[3:])))
        for i, outs in table.items():
            n += len(outs)
            vals = {v for (_, _, v) in outs}
            if len(outs) >= 2:
                nontriv.add((gen, i))
            if len(vals) > 1:
                a = outs[0]
                b = next(x for x in outs if x[2] != a[2])
                run.violation('nondeterministic', dict(generator=gen, definition=srcs[i], first=dict(process=a[0], thread=a[1], code_and_graph_hash=a[2]),
                                                       other=dict(process=b[0], thread=b[1], code_and_graph_hash=b[2]),
                                                       what='the same definition produced different output on two runs/threads (hash of generated code, hash of captured graph)',
                                                       reproduce='printf the definition into harness capture --threads %d repeatedly' % nthreads),
                              key='nondet|%s|%s' % (gen, srcs[i]))
            elif len(samples) < 3:
                samples.append(dict(generator=gen, definition=srcs[i][:200], runs=len(outs), hash=outs[0][2]))
    # logos-cli twice, then --check
    cli, err = build_cli()
    cli_n = 0
    if cli:
        wdir = os.path.join(P.WORK, 'c16')
        shutil.rmtree(wdir, ignore_errors=True)
        os.makedirs(wdir)
        for i, s_ in enumerate(srcs[:15 if tier == 'quick' else 100]):
            inp = os.path.join(wdir, 'in%d.rs' % i)
            open(inp, 'w').write(s_.replace('#[derive(Logos, Debug, PartialEq, Clone)]', '#[derive(Logos, Debug, PartialEq, Clone)]'))
            outs = []
            for k in range(2):
                o = os.path.join(wdir, 'out%d_%d.rs' % (i, k))
                subprocess.run([cli, inp, '--output', o], capture_output=True, text=True)
                outs.append(open(o).read() if os.path.exists(o) else None)
                cli_n += 1
            chk = subprocess.run([cli, inp, '--check', '--output', os.path.join(wdir, 'out%d_0.rs' % i)], capture_output=True, text=True)
            cli_n += 1
            if outs[0] != outs[1] or (outs[0] is not None and chk.returncode != 0):
                run.violation('cli-nondeterministic', dict(definition=s_, what='two logos-cli runs differ, or --check fails right after a write'), key='clinondet|' + s_)
        # the tool on definitions the derive refuses with several diagnostics, in separate processes: whatever it prints
        # and however it exits (standard output, standard error, exit status) is output too
        refused = [s_ for s_ in srcs if any(m in s_ for m in ('subpattern a = "("', '#[regex("(")] A,', 'extras = u8, extras = u16', 'skip "(", skip', '(?&hex)+', '(?&aa)|(?&bb)', '(?&digi)', 'skipp " "'))]
        for i, s_ in enumerate(refused):
            inp = os.path.join(wdir, 'rin%d.rs' % i)
            open(inp, 'w').write(s_)
            seen = []
            for k in range(4):
                p_ = subprocess.run([cli, inp], capture_output=True, text=True)
                seen.append((p_.returncode, p_.stdout, p_.stderr))
                cli_n += 1
            if len(set(seen)) > 1:
                a_, b_ = seen[0], next(x for x in seen if x != seen[0])
                run.violation('cli-nondeterministic', dict(definition=s_, first_run=dict(exit=a_[0], stdout=a_[1][:400], stderr=a_[2][:600]), other_run=dict(exit=b_[0], stdout=b_[1][:400], stderr=b_[2][:600]),
                                                           what='two logos-cli runs on the same (refused) definition differ in exit status, standard output or standard error'), key='clinondet2|' + s_)
        run.coverage['cli_refused_definitions_run_4_times'] = len(refused)
    # drift guard (informational): hash-container iteration sites in logos-codegen
    sites = scan_hash_sites()
    run.coverage.update(dict(evaluations=n + cli_n, distinct_nontrivial=len(nontriv),
                             rule='every definition generated on %d threads (each walking the definitions in its own order) in each of %d fresh processes (every HashMap gets a fresh RandomState per instance and per process), plus one thread first-to-last and one last-to-first, with both code generators; the corpus contains definitions that share the text of a literal but differ in its context (subpattern binding, flags, mode); '
                                  'hash of the generated code and of the captured graph must coincide across all of them; logos-cli twice plus --check; non-trivial = compared at least twice' % (nthreads, nproc),
                             samples=samples, hash_iteration_sites=sites))
    run.assumptions += ['partial: the theorems cover the modelled shapes of hash-container use (sort by unique key, membership, singleton test, union); that every site has one of these shapes is by inspection, listed in hash_iteration_sites',
                        'process-level hash seeds are exercised, not enumerated']
    return run.finish()


def scan_hash_sites():
    """list (file, line, text) of places that iterate a hash container; informational drift guard"""
    out = []
    pat = _re.compile(r'(HashMap|HashSet|state_idents|loop_masks|dfa_lookup|state_lookup|state_indexes|edge_dedup|reach_accept|child_state_types|states_set|rewrite_map)')
    it = _re.compile(r'\.(iter|into_iter|keys|values|drain)\(\)|for .* in ')
    base = '/repo/logos-codegen/src'
    for dp, dn, fn in os.walk(base):
        for f in sorted(fn):
            if f.endswith('.rs') and f != 'verif.rs':
                for k, ln in enumerate(open(os.path.join(dp, f)), 1):
                    if pat.search(ln) and it.search(ln):
                        out.append('%s:%d: %s' % (os.path.relpath(os.path.join(dp, f), base), k, ln.strip()[:100]))
    return out
