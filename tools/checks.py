import os, sys, json, traceback


def main(argv):
    if not argv:
        print(__doc__)
        return 2
    prop = argv[0]
    tier = os.environ.get('VERIF_TIER', 'quick')
    replay = None
    i = 1
    while i < len(argv):
        if argv[i] == '--tier':
            tier = argv[i + 1]
            i += 2
        elif argv[i] == '--replay':
            replay = argv[i + 1]
            i += 2
        else:
            i += 1
    seed = int(os.environ.get('VERIF_SEED', '1'))
    if replay:
        rp = json.load(open(replay))
        seed = rp.get('seed', seed)
        tier = rp.get('tier', tier)
        prop = rp.get('property', prop)
        print('replaying %s (seed %d, tier %s)' % (prop, seed, tier))
    os.environ['VERIF_TIER_EFFECTIVE'] = tier
    import props_lex, props_def, props_lib
    table = {
        'C01': lambda: props_lex.check_stream_props('C01', tier, seed),
        'C02': lambda: props_lex.check_stream_props('C02', tier, seed),
        'C03': lambda: props_lex.check_stream_props('C03', tier, seed),
        'C04': lambda: props_lex.check_c04(tier, seed),
        'C05': lambda: props_lex.check_c05(tier, seed),
        'C06': lambda: props_lex.check_c06(tier, seed),
        'C07': lambda: props_lex.check_c07(tier, seed),
        'C08': lambda: props_def.check_c08(tier, seed),
        'C09': lambda: props_def.check_c09(tier, seed),
        'C10': lambda: props_def.check_c10(tier, seed),
        'C11': lambda: props_def.check_c11(tier, seed),
        'C16': lambda: props_def.check_c16(tier, seed),
        'C17': lambda: props_def.check_c17(tier, seed),
        'C19': lambda: props_def.check_c19(tier, seed),
        'C18': lambda: props_def.check_c18(tier, seed),
        'C14': lambda: props_lib.check_c14(tier, seed),
        'C15': lambda: props_lib.check_c15(tier, seed),
        'C12': lambda: props_lex.check_c12(tier, seed),
        'C13': lambda: props_lex.check_c13(tier, seed),
        'C20': lambda: props_lex.check_c20(tier, seed),
    }
    if prop not in table:
        print('unknown property', prop)
        return 2
    return table[prop]()
