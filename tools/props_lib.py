"""Checks that exercise the logos runtime library directly (Source::read, bump, API histories, stack depth)."""
import os, sys, json, random, subprocess, time
from concurrent.futures import ThreadPoolExecutor
sys.path.insert(0, os.path.dirname(os.path.abspath(__file__)))
import pipeline as P

LIB = os.path.join(P.HARNESS, 'libcheck')
ENV = dict(os.environ, CARGO_NET_OFFLINE='true')
USIZE_MAX = 2 ** 64 - 1


def build_libcheck(configs):
    """configs: list of (name, features, release). returns dict name -> binary path or None"""
    def one(c):
        name, feats, rel = c
        tdir = os.path.join(P.HARNESS, 'target-lib', name)
        cmd = ['cargo', 'build', '--offline', '--target-dir', tdir] + (['--release'] if rel else []) + (['--features', feats] if feats else [])
        p = subprocess.run(cmd, cwd=LIB, env=ENV, capture_output=True, text=True)
        return name, (os.path.join(tdir, 'release' if rel else 'debug', 'libcheck') if p.returncode == 0 else None), p.stderr[-2000:]
    with ThreadPoolExecutor(len(configs)) as ex:
        res = list(ex.map(one, configs))
    return {n: (b, e) for n, b, e in res}


LIBCFG = {
    'quick': [('dbg', '', False), ('dbg_safe', 'safe', False), ('rel', '', True), ('rel_safe', 'safe', True)],
    'thorough': [('dbg', '', False), ('dbg_safe', 'safe', False), ('rel', '', True), ('rel_safe', 'safe', True)],
}


def run_lib(binp, lines):
    p = subprocess.run([binp], input='\n'.join(lines) + '\n', capture_output=True, text=True, timeout=600)
    out = {}
    for ln in p.stdout.split('\n'):
        if ' : ' in ln:
            k, v = ln.split(' : ', 1)
            out[k] = v
    return out, p.returncode


def lean_ask(queries):
    lines = ['CASE L'] + ['Q ' + q for q in queries]
    ans = P.run_lean(lines, nproc=1)
    return {k[2:]: v for k, v in ans.items() if k.startswith('L ')}


def source_read_differential(run, tier, seed, log=print):
    """Source::read for str and [u8]: chunk sizes u8 and 1..32, offsets around len and usize::MAX,
    sources presented as prefixes of a longer allocation filled with a sentinel."""
    R = random.Random(seed)
    bins = build_libcheck(LIBCFG[tier])
    srcs = [b'', b'a', b'ab', b'abcdefg', b'abcdefgh', b'abcdefghi', 'aé中😀'.encode(), bytes(range(1, 33)), bytes(range(1, 41))]
    reqs = []
    for s in srcs:
        n = len(s)
        offs = sorted({0, 1, max(0, n - 33), max(0, n - 9), max(0, n - 8), max(0, n - 2), max(0, n - 1), n, n + 1, n + 2, n + 8,
                       USIZE_MAX, USIZE_MAX - 1, USIZE_MAX - 7, USIZE_MAX - 8, USIZE_MAX - 31, USIZE_MAX - 32, 2 ** 63, 2 ** 32})
        sizes = list(range(0, 33)) if tier == 'thorough' else [0, 1, 2, 3, 7, 8, 9, 16, 31, 32]
        for off in offs:
            for sz in sizes:
                reqs.append('READ %s %d %d' % (P.hexs(s), off, sz))
    model = lean_ask(reqs)
    evals = 0
    nontriv = set()
    bad = 0
    for name, (binp, err) in bins.items():
        if binp is None:
            run.violation('libcheck-build', dict(config=name, stderr=err), no_input=True)
            continue
        # the guards safe code relies on: every Source method on str / [u8] and their Deref wrappers, at every index up to
        # len + 2 (is_boundary must refuse everything past the end: Lexer::bump has no other check before slicing)
        sreqs = ['SRC ' + P.hexs(x) for x in srcs]
        sout, _ = run_lib(binp, sreqs)
        for rq in sreqs:
            evals += 1
            if sout.get(rq) != 'SAME':
                bad += 1
                run.violation('source-impl', dict(config=name, request=rq, observed=sout.get(rq),
                                                  what='a Source method (len / read / slice / is_boundary / find_boundary) disagrees with std or with the base impl: spans accepted on that basis can lie outside the source'),
                              key='srcimpl|%s' % rq)
        out, rc = run_lib(binp, reqs)
        for rq in reqs:
            evals += 1
            got = out.get(rq)
            want = model.get(rq)
            t = rq.split(' ')
            ln = len(bytes.fromhex(t[1] if t[1] != '-' else ''))
            off, sz = int(t[2]), max(1, int(t[3]))
            if abs(off + sz - ln) <= 1 or off > 2 ** 62:
                nontriv.add(rq)
            if got != want:
                bad += 1
                run.violation('source-read', dict(config=name, request=rq, observed=got, expected=want,
                                                  what='Source::read differs from the model (chunk returned iff offset + size <= len without overflow, holding the bytes at that offset)'),
                              key='read|%s|%s' % (name, rq))
    return dict(evaluations=evals, distinct_nontrivial=len(nontriv), failures=bad, configs=list(bins))


def check_c15(tier, seed, log=print):
    from common import Run, audit, load_theorems, TRUSTED_BASE
    run = Run('C15', tier, seed)
    au = audit('C15', load_theorems('C15'))
    for pb in au['problems']:
        run.violation('proof', dict(theorem_audit=pb), no_input=True)
    P.build_lean()
    bins = build_libcheck(LIBCFG[tier])
    R = random.Random(seed)
    srcs_s = ['', 'a', 'ab cd', 'aé', 'é', 'ab中c', '😀x', 'abc def ghi', 'ééé']
    srcs_b = [b'', b'ab', b'ab \xff\xfe cd', b'abc']
    reqs = []
    for s in srcs_s:
        b = s.encode('utf-8')
        n = len(b)
        ns = sorted(set(list(range(0, n + 3)) + [USIZE_MAX, USIZE_MAX - 1, USIZE_MAX - n, USIZE_MAX - n + 1, USIZE_MAX - n - 1, 2 ** 63, 2 ** 64 - 2, 2 ** 32]))
        ns = [x for x in ns if 0 <= x <= USIZE_MAX]
        for nexts in (0, 1, 2):
            for x in ns:
                reqs.append('BUMP s %s %d %d' % (P.hexs(b), nexts, x))
    for b in srcs_b:
        n = len(b)
        ns = sorted(set(list(range(0, n + 3)) + [USIZE_MAX, USIZE_MAX - 1, USIZE_MAX - n + 1, 2 ** 64 - 2]))
        ns = [x for x in ns if 0 <= x <= USIZE_MAX]
        for nexts in (0, 1, 2):
            for x in ns:
                reqs.append('BUMP b %s %d %d' % (P.hexs(b), nexts, x))
    # lexers whose Source is a Deref wrapper (a hand-written `impl Logos` may name String, Box<str>, Rc<str>, Cow<str>, Vec<u8>,
    # Box<[u8]>, Arc<[u8]>): bump has to obey the same rule there - whatever a Source method defaults to must not weaken it
    for s in srcs_s:
        b = s.encode('utf-8')
        n = len(b)
        ns = sorted(set(list(range(0, n + 3)) + [USIZE_MAX, USIZE_MAX - n + 1, 2 ** 63]))
        for kind in ('sS', 'sB', 'sR', 'sC'):
            for nexts in (0, 1, 2):
                for x in ns:
                    if 0 <= x <= USIZE_MAX:
                        reqs.append('BUMP %s %s %d %d' % (kind, P.hexs(b), nexts, x))
    for b in srcs_b:
        n = len(b)
        ns = sorted(set(list(range(0, n + 3)) + [USIZE_MAX, USIZE_MAX - n + 1]))
        for kind in ('bV', 'bB', 'bA'):
            for nexts in (0, 1, 2):
                for x in ns:
                    if 0 <= x <= USIZE_MAX:
                        reqs.append('BUMP %s %s %d %d' % (kind, P.hexs(b), nexts, x))
    # the same through a callback: bump(n) called inside `next()`, after skips handled in the same call (token_start moved by
    # trivia), with the panic caught and the lexer used afterwards
    for s in ['   =9 ab', 'ab  cdé', '/* c */ab é', ' é', 'a', '=', '  é=', 'ab /* x */   cd']:
        b = s.encode('utf-8')
        n = len(b)
        ns = sorted(set(list(range(0, 5)) + [n, n + 1, USIZE_MAX, USIZE_MAX - 1, USIZE_MAX - n, USIZE_MAX - n + 1, 2 ** 63]))
        for nexts in (0, 1, 2, 3):
            for x in ns:
                if 0 <= x <= USIZE_MAX:
                    reqs.append('CBUMP s %s %d %d' % (P.hexs(b), nexts, x))
    for b in [b'  =9 ab', b'ab  \xff=', b' \xfe', b'a']:
        n = len(b)
        for nexts in (0, 1, 2):
            for x in sorted(set(list(range(0, 4)) + [n, n + 1, USIZE_MAX, USIZE_MAX - n + 1])):
                reqs.append('CBUMP b %s %d %d' % (P.hexs(b), nexts, x))
    # every Source method on the Deref wrappers (String, Box<str>, &str, Vec<u8>, Box<[u8]>, &[u8]) must answer like the base
    # impl, and the base impls like std (is_char_boundary); bump relies on Source::is_boundary of whatever source type is used
    src_reqs = ['SRC ' + P.hexs(x.encode('utf-8')) for x in srcs_s + ['aé中😀z', '\u00c0\u0400\u2013x']] + ['SRC ' + P.hexs(b) for b in srcs_b + [b'\x80\xbf', b'\xc3']]
    evals = 0
    nontriv = set()
    samples = []
    tie_dis = 0
    src_ok = 0
    for name, (binp, err) in bins.items():
        if binp is None:
            run.violation('libcheck-build', dict(config=name, stderr=err), no_input=True)
            continue
        sout, _ = run_lib(binp, src_reqs)
        for rq in src_reqs:
            v = sout.get(rq)
            if v == 'SAME':
                src_ok += 1
            else:
                run.violation('source-impl', dict(config=name, request=rq, observed=v,
                                                  what='a Source method answers differently on a Deref wrapper (or on str / [u8] than std prescribes): bump accepts or rejects different ends depending on the source type'),
                              key='srcimpl|%s' % rq)
        out, rc = run_lib(binp, reqs)
        # model queries need the span before the bump, which the real run reports
        qs = {}
        for rq in reqs:
            v = out.get(rq)
            if v is None or not v.startswith('pre:'):
                continue
            pre = v.split(' ')[0][4:]
            a, b = pre.split('-')
            t = rq.split(' ')
            qs[rq] = 'BUMP %s %s %s %s %s' % (t[1][0], t[2], a, b, t[4])      # a wrapper kind (sS, bV, ..) is the base kind to the model
        model = lean_ask(sorted(set(qs.values())))
        for rq in reqs:
            v = out.get(rq)
            evals += 1
            if v is None:
                run.violation('libcheck-crash', dict(config=name, request=rq, what='no answer (process died?)'), key='crash|%s|%s' % (name, rq))
                continue
            if v in ('NOTUTF8', 'NOCALL'):
                continue
            parts = v.split(' ')
            t = rq.split(' ')
            srclen = len(bytes.fromhex(t[2] if t[2] != '-' else ''))
            n = int(t[4])
            res, s_, e_ = parts[1], int(parts[2]), int(parts[3])
            pre_s, pre_e = map(int, parts[0][4:].split('-'))
            if n > srclen:
                nontriv.add(rq)
            # --- property oracle, directly on the implementation ---
            msg = None
            src = bytes.fromhex(t[2] if t[2] != '-' else '')

            def is_b(i):
                if i > srclen:
                    return False
                if t[1][0] == 'b':
                    return True
                return i == 0 or i == srclen or (src[i] & 0xC0) != 0x80
            in_range = pre_e + n <= USIZE_MAX and is_b(pre_e + n)
            if res == 'ok' and not in_range:
                msg = 'bump(%d) at end %d of a %d-byte source succeeded' % (n, pre_e, srclen)
            elif res == 'panic' and in_range:
                msg = 'bump(%d) to a valid position panicked' % n
            elif 'INVALIDSPAN' in v or 'SLICEPANIC' in v:
                msg = 'after bump(%d) (%s) the lexer span is %d..%d: slice()/remainder() are not safe' % (n, res, s_, e_)
            elif res == 'ok' and (s_, e_) != (pre_s, pre_e + n):
                msg = 'bump(%d) moved the span to %d..%d' % (n, s_, e_)
            if msg:
                run.violation('bump', dict(config=name, request=rq, source_text=src.decode('utf-8', 'replace'), observed=v, what=msg),
                              key='bump|%s' % rq)
            elif len(samples) < 5 and n > srclen:
                samples.append(dict(config=name, request=rq, observed=v))
            # --- tie with the model of the repaired rule ---
            mv = model.get(qs.get(rq, ''), None)
            if mv is not None and mv != ' '.join(parts[1:4]):
                tie_dis += 1
                if not msg:
                    run.violation('tie', dict(config=name, request=rq, observed=v, model=mv, correspondence='Lexer::bump vs LogosModel.bumpFixed'),
                                  no_input=True, key='bumptie|%s' % rq)
    run.coverage.update(dict(obligations=au['obligations'], discharged=au['discharged'], theorems=au['names'], axioms=au['axioms'],
                             checker_cmd=au['checker_cmd'], kernel_recheck=au.get('kernel_recheck'), trusted_base=TRUSTED_BASE,
                             evaluations=evals, distinct_nontrivial=len(nontriv), source_wrapper_probes_ok=src_ok,
                             rule='Lexer::bump(n) on str and [u8] lexers (derived) and on hand-written lexers whose Source is String, Box<str>, Rc<str>, Cow<str>, Vec<u8>, Box<[u8]>, Arc<[u8]> at three positions, n over 0..len+2, usize::MAX-k, 2^63, 2^64-2 and wrap-around values, in debug and release builds with and without forbid_unsafe, under catch_unwind; '
                                  'afterwards span() is inspected and slice()/remainder() only when the span is valid; oracle = the property itself (succeeds iff new end representable, in range and on a boundary; span valid in every case); non-trivial = n > len',
                             samples=samples, configs=list(bins), model_vs_impl_disagreements=tie_dis))
    run.coverage['copies_between_sources'] = copy_api_histories(run, tier, log)
    run.assumptions += ['the release/debug difference (overflow checks) is exercised on the real builds; the model treats usize as 64-bit naturals with explicit overflow tests']
    return run.finish()


def stack_check(run, r, tier, seed, log=print):
    """C06: the state-machine lexer on a 64 KiB stack with 4 MiB inputs: one long token, many tokens,
    a million consecutive skips. Each probe runs in its own process (an overflow kills it)."""
    import zoo as Z
    corpus = r['corpus']
    idx = [i for i in r['accepted'] if corpus[i].origin == 'fixed:stack']
    res = dict(probes=0, configs=[])
    if not idx:
        return dict(note='stack definition not in corpus')
    i = idx[0]
    probes = {'long token': b'a' * 64, 'many tokens': b'ab', 'consecutive skips': b'x' * 64, 'skips and tokens': b'xxa', 'errors': b'z',
              'consecutive skips decided by a callback': b'y' * 64, 'skip items with a callback': b'wx', 'every kind of skip in turn': b'xyw'}
    for cfgname in r['zoo_out']:
        if not cfgname.startswith('sm') or 'trace' in cfgname or r['zoo_out'][cfgname] is None:
            continue
        binp = os.path.join(P.HARNESS, 'target-zoo', 'zoo-%s-%s' % (r['tier'], cfgname), 'debug', 'zoo')
        res['configs'].append(cfgname)
        for what, unit in probes.items():
            rq = '%d S %s' % (i, P.hexs(unit))
            try:
                p = subprocess.run([binp], input=rq + '\n', capture_output=True, text=True, timeout=300)
                out, rc = p.stdout.strip(), p.returncode
            except subprocess.TimeoutExpired:
                out, rc = 'TIMEOUT', -1
            res['probes'] += 1
            ok = rc == 0 and 'count=' in out and 'PANIC' not in out
            if ok:
                m = _re.search(r'end=(\d+) len=(\d+)', out)
                ok = bool(m) and m.group(1) == m.group(2)
            if not ok:
                run.violation('stack', dict(definition=r['srcs'][i], config=cfgname, probe=what, unit_hex=P.hexs(unit), observed=out[-200:], exit=rc,
                                            what='state-machine lexer failed on a 4 MiB input with a 64 KiB stack (stack use grows with the input?)'),
                              key='stack|%s|%s' % (cfgname, what))
            # frame model (Stack.lean, lexS_sm_peak): the number of frames between the caller of next() and a callback is
            # constant, so every invocation of one callback function sees the same stack address
            m = _re.search(r'spread=(\d+) calls=(\d+)', out)
            if ok and m and what in SINGLE_CALLBACK_PROBES:
                res['frame_probes'] = res.get('frame_probes', 0) + 1
                res['callback_invocations_measured'] = res.get('callback_invocations_measured', 0) + int(m.group(2))
                if int(m.group(2)) < 2:
                    res.setdefault('frame_probe_notes', []).append('%s %s: fewer than two callback invocations' % (cfgname, what))
                elif int(m.group(1)) != 0:
                    run.violation('stack-frames', dict(definition=r['srcs'][i], config=cfgname, probe=what, unit_hex=P.hexs(unit), observed=out[-200:],
                                                       what='state-machine lexer: two invocations of the same callback ran at different stack depths (%s bytes apart): the depth depends on what was lexed before; the frame model (lexS_sm_peak: at most three frames) does not describe this build' % m.group(1)),
                                  key='stackframes|%s|%s' % (cfgname, what))
            res.setdefault('samples', []).append('%s %s: %s' % (cfgname, what, out[-80:]))
    # the other direction of the model: tail calls counted without frame reuse grow by a frame per transition and per
    # restart (attemptS_tc_depth, nextLoopS_tc_skips); a debug build does not reuse frames, so the growth is measurable.
    # Recorded, never a violation: an optimising build may reuse the frames.
    for cfgname in r['zoo_out']:
        if not cfgname.startswith('tail') or 'trace' in cfgname or r['zoo_out'][cfgname] is None:
            continue
        binp = os.path.join(P.HARNESS, 'target-zoo', 'zoo-%s-%s' % (r['tier'], cfgname), 'debug', 'zoo')
        for what in SINGLE_CALLBACK_PROBES:
            rq = '%d A %s' % (i, P.hexs(probes[what]))
            try:
                p = subprocess.run([binp], input=rq + '\n', capture_output=True, text=True, timeout=120)
                m = _re.search(r'spread=(\d+) calls=(\d+)', p.stdout)
            except subprocess.TimeoutExpired:
                m = None
            if m:
                res.setdefault('tail_call_debug_growth', []).append(dict(config=cfgname, probe=what, bytes_between_shallowest_and_deepest_callback=int(m.group(1)), callback_invocations=int(m.group(2))))
    return res


SINGLE_CALLBACK_PROBES = ('consecutive skips decided by a callback', 'skip items with a callback')


# ---------------------------------------------------------------------------------------------
# C14: API histories
# ---------------------------------------------------------------------------------------------
import re as _re


def libcheck_enums():
    """enum sources of TokA / TokB exactly as compiled into libcheck (so that the model lexes the same definitions)"""
    txt = open(os.path.join(LIB, 'src', 'main.rs')).read()
    out = {}
    for name in ('TokA', 'TokB', 'TokC', 'TokD', 'TokE', 'TokF'):
        m = _re.search(r'(#\[derive\(Logos[^\n]*\n(?:#\[logos[^\n]*\n)*pub enum %s \{.*?\n\})' % name, txt, _re.S)
        out[name] = m.group(1)
    return out


def gen_history(R, src_len):
    ops = []
    npool = 1
    for _ in range(R.choice([3, 5, 8, 12])):
        r = R.random()
        i = R.randrange(npool + 1)
        if r < 0.4:
            ops += ['next', str(i)]
        elif r < 0.55:
            ops += ['snext', str(i)]
        elif r < 0.7:
            n = R.choice([0, 1, 1, 2, 3, src_len, src_len + 1, 2 ** 64 - 1, 2 ** 63, max(0, src_len - 1), max(0, src_len - 2), max(0, src_len - 3)])
            ops += ['bump', str(i), str(n)]
        elif r < 0.8:
            ops += ['clone', str(i)]
            npool += 1
        elif r < 0.86:
            ops += ['fresh', R.choice(['0', '1']), R.choice(['0', '0', '1'])]
            npool += 1
        elif r < 0.92:
            ops += ['clonefrom', str(i), str(R.randrange(npool + 1))]
        else:
            ops += ['morph', str(i)]
    return ops


def check_c14(tier, seed, log=print):
    from common import Run, audit, load_theorems, TRUSTED_BASE
    run = Run('C14', tier, seed)
    au = audit('C14', load_theorems('C14'))
    for pb in au['problems']:
        run.violation('proof', dict(theorem_audit=pb), no_input=True)
    P.build_harness()
    P.build_lean()
    bins = build_libcheck(LIBCFG[tier])
    enums = libcheck_enums()
    caps = P.run_capture([enums['TokA'], enums['TokB'], enums['TokC'], enums['TokD']])
    if any(c is None or c.verdict != 'ACCEPT' for c in caps):
        run.violation('setup', dict(what='libcheck token types not accepted by the derive'), no_input=True)
        return run.finish()
    R = random.Random(seed)
    srcs = ['', 'a', 'ab 12', 'ab  cd é', 'é', 'x1 y2  z3', 'aé b', '12ab!é?', 'hello world 42', '中a',
            # characters that share all but the last byte with one a token matches: the attempt dies inside the character
            'aèb', '丮x', '😐 y', 'é😐中', '😀😐', 'a 丮 😐',
            # ... after an ASCII prefix of the same token (the error item starts with an ASCII byte and dies inside a character)
            '#è x', 'ab #è', '=😐', '1 =😐 #é', '#é#è']
    n_hist = 150 if tier == 'quick' else 2000
    reqs = []
    for k in range(n_hist):
        s = R.choice(srcs).encode('utf-8')
        partial = 1 if R.random() < 0.35 else 0
        ops = gen_history(R, len(s))
        reqs.append('API %s %d %s' % (P.hexs(s), partial, ' '.join(ops)))
    # directed histories: a partial lexer that has answered None in the middle of the source is bumped (in range) and asked
    # again, through the same handle, with next and with spanned-next
    for src in ['ab', 'x1 y2', 'ab 12', 'a', 'hello world 42']:
        for first in ('snext', 'next'):
            for j in (1, 2, 3):
                for n in (1, 2):
                    ops = [first, '0'] * j + ['bump', '0', str(n), first, '0', first, '0', 'clone', '0', first, '1']
                    reqs.append('API %s 1 %s' % (P.hexs(src.encode('utf-8')), ' '.join(ops)))
    # directed: lexers of both modes in one pool, one refreshed in place from the other (clone_from), at every position of an
    # input that ends inside a token that could still grow; then both are asked
    for src in ['ab .', 'ab 12', 'x1 y', 'é é']:
        for p0 in (0, 1):
            for warm in (0, 1, 2, 3):
                for (a, b) in ((0, 1), (1, 0)):
                    ops = ['fresh', str(1 - p0), '0'] + ['next', str(b)] * warm + ['clonefrom', str(a), str(b), 'next', str(a), 'next', str(b), 'snext', str(a), 'snext', str(b),
                                                                                 'clone', str(a), 'next', '2']
                    reqs.append('API %s %d %s' % (P.hexs(src.encode('utf-8')), p0, ' '.join(ops)))
    # directed: two lexers over different sources (the second source is longer and its char boundaries lie elsewhere), one advanced by
    # next / bump, then copied in place into the other, both directions; the copy must read the donor's source
    for src in ['ab', 'ab 12', 'é', 'x']:
        for warm in (1, 2, 3):
            for adv in (['next'], ['bump', '2'], ['bump', '1'], ['next', 'bump', '1']):
                for (a, b) in ((0, 1), (1, 0)):
                    ops = ['fresh', '0', '1']
                    for _ in range(warm):
                        for o in adv:
                            ops += ([o, str(b)] if o == 'next' else ['bump', str(b), o] if o.isdigit() else [])
                    ops = ['fresh', '0', '1'] + sum(([x, str(b)] if x == 'next' else ['bump', str(b), adv[k + 1]] for k, x in enumerate(adv) if not x.isdigit()), []) * warm
                    ops += ['clonefrom', str(a), str(b), 'next', str(a), 'bump', str(a), '1', 'snext', str(a), 'next', str(b), 'clone', str(a), 'next', '2']
                    reqs.append('API %s 0 %s' % (P.hexs(src.encode('utf-8')), ' '.join(ops)))
    # small scope, exhaustively: after 0 or 2 warm-up calls, every sequence of three calls over a fixed menu (both handles of
    # the pool, in-range and out-of-range bumps), ordinary and partial lexer, followed by a read through both handles
    menu = [['next', '0'], ['snext', '0'], ['bump', '0', '1'], ['bump', '0', '2'], ['bump', '0', '99'], ['clone', '0'], ['morph', '0'], ['next', '1'], ['snext', '1'],
            ['bump', '1', '1'], ['clone', '1'], ['morph', '1']]
    n_exh = 0
    for src in (['ab 12 é'] if tier == 'quick' else ['ab 12 é', 'x1 y2  z3', 'é']):
        for warm in (0, 2):
            for a in menu:
                for b in menu:
                    for c in menu:
                        for partial in (0, 1):
                            ops = ['next', '0'] * warm + a + b + c + ['snext', '0', 'next', '1']
                            reqs.append('API %s %d %s' % (P.hexs(src.encode('utf-8')), partial, ' '.join(ops)))
                            n_exh += 1
    # the same over a [u8] source (two binary token types): every index <= len is a boundary there
    bsrcs = [b'', b'a', b'ab \xff', b'\x80\x81a b', b'ab  cd', b'x\xc3', b'hello \xfe\xff z']
    for k in range(n_hist // 2):
        s = R.choice(bsrcs)
        partial = 1 if R.random() < 0.2 else 0
        ops = gen_history(R, len(s))
        reqs.append('APIB %s %d %s' % (P.hexs(s), partial, ' '.join(ops)))
    # model: TokA's `Ws` leaf has the callback logos::skip (zoo callback kind 3)
    lines = ['CASE A'] + caps[0].dump
    ws = [i for i, l in enumerate(caps[0].leaves) if l[3] == 'Ws']
    for i in ws:
        lines.append('CB %d 3' % i)
    lines += ['CASE B'] + caps[1].dump
    lines += ['CASE C'] + caps[2].dump
    lines += ['CASE D'] + caps[3].dump
    for rq in reqs:
        t = rq.split(' ')
        pair = 'A B' if t[0] == 'API' else 'C D'
        lines.append('Q API %s %s %s %s' % (pair, t[1], t[2], ' '.join(t[3:])))
    ans = P.run_lean(lines, nproc=0)
    model = {}
    for rq in reqs:
        t = rq.split(' ')
        pair = 'A B' if t[0] == 'API' else 'C D'
        model[rq] = ans.get('D API %s %s %s %s' % (pair, t[1], t[2], ' '.join(t[3:])))
    evals = 0
    nontriv = set()
    samples = []
    tie_dis = 0
    opcount = {}
    for name, (binp, err) in bins.items():
        if binp is None:
            run.violation('libcheck-build', dict(config=name, stderr=err), no_input=True)
            continue
        out, rc = run_lib(binp, reqs)
        for rq in reqs:
            v = out.get(rq)
            evals += 1
            ops = rq.split(' ')[3:]
            for o in ops:
                if o.isalpha():
                    opcount[o] = opcount.get(o, 0) + 1
            if 'clone' in ops and 'morph' in ops:
                nontriv.add(rq)
            msg = None
            if v is None:
                msg = 'no answer (process died?)'
            elif 'BADSPAN' in v or 'BADSLICE' in v or v == 'PANIC':
                msg = 'slice()/remainder() disagree with source[span()] or the span is invalid: ' + v
            if msg:
                run.violation('api', dict(config=name, request=rq, observed=v, what=msg), key='api|' + rq)
                continue
            # property oracle on the implementation itself: a clone must not disturb its original.
            # (checked through the model: the model is pure, so any interference shows up as a difference)
            mv = model.get(rq)
            if mv is not None and mv != v:
                tie_dis += 1
                run.violation('api-differs', dict(config=name, request=rq, observed=v, model=mv,
                                                  what='the history gives different results on the real Lexer and on the pure model (in which clones are independent, morph preserves position/extras, spanned = manual iteration by construction)'),
                              key='apidiff|' + rq)
            elif len(samples) < 4 and 'clone' in ops and 'morph' in ops:
                samples.append(dict(request=rq, observed=v))
    # a call of next that does not return: the callback of the winning match panics (its bump is out of range) and the caller
    # catches the unwind and goes on using the lexer.  Judged by the clauses themselves: the span denotes a slice of the source,
    # slice() is that slice, remainder() is what follows it.  Sources with skipped text before the token whose callback panics.
    preqs = []
    for b in ['ab', '  ab', 'ab   cd', '12 \t ab', '/* c */ab =', '12   /* x */  é z', 'é  =', '= ab']:
        for nexts in (0, 1, 2):
            preqs.append('CBUMP s %s %d %d' % (P.hexs(b.replace('\t', ' ').encode('utf-8')), nexts, 2 ** 64 - 1))
    for b in [b'ab', b'  ab', b'ab   \xff', b'12  = ab']:
        for nexts in (0, 1, 2):
            preqs.append('CBUMP b %s %d %d' % (P.hexs(b), nexts, 2 ** 64 - 1))
    caught = 0
    # the model of such a call (Panic.lean: nextLoopP over the captured graphs of TokE / TokF, every callback invocation panics):
    # which call panics, and the span the unwind leaves behind
    pcaps = P.run_capture([enums['TokE'], enums['TokF']])
    pmodel = {}
    if all(c is not None and c.verdict == 'ACCEPT' for c in pcaps):
        pl = []
        for nm, cap, withcb in (('E', pcaps[0], ('Word', 'Eq', 'E')), ('F', pcaps[1], ('Word', 'Eq', 'High'))):
            pl += ['CASE ' + nm] + cap.dump + ['CB %d 2' % i for i, l in enumerate(cap.leaves) if l[3] in withcb]
            for rq in preqs:
                t = rq.split(' ')
                if (t[1] == 's') == (nm == 'E'):
                    pl.append('Q CPANIC %s %s' % (t[2], t[3]))
        pans = P.run_lean(pl, nproc=0)
        for rq in preqs:
            t = rq.split(' ')
            pmodel[rq] = pans.get('%s CPANIC %s %s' % ('E' if t[1] == 's' else 'F', t[2], t[3]))
    else:
        run.violation('setup', dict(what='libcheck token types TokE / TokF not accepted by the derive'), no_input=True)
    panic_model_agree = 0
    for name, (binp, err) in bins.items():
        if binp is None:
            continue
        out, rc = run_lib(binp, preqs)
        for rq in preqs:
            v, mv = out.get(rq), pmodel.get(rq)
            if v is None or mv is None or v == 'NOTUTF8':
                continue
            t = v.split(' ')
            real = 'nocall' if v == 'NOCALL' else ('panic %s %s' % (t[2], t[3]) if len(t) >= 4 and t[1] == 'panic' else 'other')
            want = mv if mv.startswith('panic') else 'nocall'
            if real == want and (real == 'nocall' or t[0] == 'pre:%s-%s' % (t[2], t[3])):
                panic_model_agree += 1
            else:
                tie_dis += 1
                run.violation('api-differs', dict(config=name, request=rq, observed=v, model=mv,
                                                  what='a call of next whose callback panics: the real lexer and the model (Panic.nextLoopP) disagree on whether a callback ran or on the span the unwind leaves behind'),
                              key='apipanicdiff|' + rq)
        for rq in preqs:
            v = out.get(rq)
            evals += 1
            if v in ('NOCALL', 'NOTUTF8'):
                continue
            t = (v or '').split(' ')
            src = bytes.fromhex(rq.split(' ')[2])
            msg = None
            if v is None or len(t) < 5:
                msg = 'no answer (process died?)'
            elif t[1] != 'panic':
                continue
            elif 'INVALIDSPAN' in t or 'SLICEPANIC' in t:
                msg = 'after the caught panic span() = %s..%s does not denote a slice of the source (or slice() panics)' % (t[2], t[3])
            else:
                a_, b_ = int(t[2]), int(t[3])
                sl = bytes.fromhex(t[4]) if t[4] != '-' else b''
                rem = bytes.fromhex(t[5]) if len(t) > 5 and t[5] != '-' else b''
                if sl != src[a_:b_] or rem != src[b_:]:
                    msg = 'after the caught panic slice() / remainder() are not source[span()] / source[span().end..]'
            caught += 1
            if msg:
                run.violation('api', dict(config=name, request=rq, observed=v, what=msg,
                                          history='%s calls of next, then a call of next whose callback panics (caught), then span / slice / remainder' % rq.split(' ')[3]),
                              key='apipanic|' + rq)
    run.coverage['calls_of_next_ending_in_a_caught_panic'] = caught
    run.coverage['caught_panic_calls_agreeing_with_the_model'] = panic_model_agree
    run.coverage.update(dict(obligations=au['obligations'], discharged=au['discharged'], theorems=au['names'], axioms=au['axioms'],
                             checker_cmd=au['checker_cmd'], kernel_recheck=au.get('kernel_recheck'), trusted_base=TRUSTED_BASE,
                             evaluations=evals, distinct_nontrivial=len(nontriv), op_mix=opcount, configs=list(bins),
                             rule='random histories, and exhaustively every three-call sequence over a 12-entry menu after 0 or 2 warm-up calls, of next / spanned-next / bump (in range, out of range, overflowing) / clone / morph on a pool of lexers of two token types over one source (str: TokA/TokB; [u8]: TokC/TokD), ordinary and partial, '
                                  'run on the real Lexer (debug/release x default/forbid_unsafe; after every call span, slice == source[span], remainder == source[end..], extras are checked) and on the Lean pool model over the captured graphs of the same two definitions; non-trivial = history contains clone and morph',
                             samples=samples, model_vs_impl_disagreements=tie_dis))
    run.assumptions += ['extras are a constant carried along (the token types have no extras-mutating callbacks)',
                        'api_in_range is stated for ordinary lexers and callbacks that do not bump; api_in_range_any (BumpTiles) lifts both restrictions; a call of next that ends in a caught panic is judged on the real lexer only (the model has no panicking callbacks)']
    return run.finish()


def partial_api_histories(run, tier, log=print):
    """C07 through the public API: a partial lexer that is morphed, cloned or wrapped by spanned() must stay partial.
    Directed histories on the real Lexer (two builds) against the Lean pool model (Api.lean, is_prefix carried along)."""
    bins = build_libcheck([c for c in LIBCFG[tier] if c[0] in ('dbg', 'rel_safe')])
    enums = libcheck_enums()
    caps = P.run_capture([enums['TokA'], enums['TokB']])
    if any(c is None or c.verdict != 'ACCEPT' for c in caps):
        run.violation('setup', dict(what='libcheck token types not accepted by the derive'), no_input=True)
        return dict(evaluations=0)
    reqs = []
    for src in ['ab', 'ab 12', 'x1 y2', 'hello world 42', 'a', 'ab  cd é', '12ab']:
        hx = P.hexs(src.encode('utf-8'))
        for j in (0, 1, 2):
            for first in ('next', 'snext'):
                pre = [first, '0'] * j
                reqs.append('API %s 1 %s' % (hx, ' '.join(pre + ['morph', '0', first, '0', first, '0', 'morph', '0', first, '0'])))
                reqs.append('API %s 1 %s' % (hx, ' '.join(pre + ['clone', '0', 'morph', '1', first, '1', first, '0', first, '1'])))
    lines = ['CASE A'] + caps[0].dump
    for i, l in enumerate(caps[0].leaves):
        if l[3] == 'Ws':
            lines.append('CB %d 3' % i)
    lines += ['CASE B'] + caps[1].dump
    for rq in reqs:
        t = rq.split(' ')
        lines.append('Q API A B %s %s %s' % (t[1], t[2], ' '.join(t[3:])))
    ans = P.run_lean(lines, nproc=0)
    n = bad = 0
    for name, (binp, err) in bins.items():
        if binp is None:
            run.violation('libcheck-build', dict(config=name, stderr=err), no_input=True)
            continue
        out, rc = run_lib(binp, reqs)
        for rq in reqs:
            t = rq.split(' ')
            mv = ans.get('B API A B %s %s %s' % (t[1], t[2], ' '.join(t[3:])))
            v = out.get(rq)
            n += 1
            if mv is not None and v != mv:
                bad += 1
                run.violation('partial-api', dict(config=name, request=rq, observed=v, model=mv,
                                                  what='a partial lexer handled through morph / clone / spanned behaves differently from the model, in which the partial flag travels with the lexer (it commits an item the buffer does not determine, or stops waiting)'),
                              key='papi|' + rq)
    return dict(evaluations=n, failures=bad)


def copy_api_histories(run, tier, log=print):
    """C15 through copies: a position validated by bump / next against one source must not end up in a lexer reading another
    one.  Directed histories over two sources (the second longer, char boundaries elsewhere): advance one lexer, copy it into
    the other with clone_from / clone, bump and lex on; after every call the span must lie inside the source the lexer itself
    reports, on its char boundaries (BADSPAN / BADSLICE otherwise), and the history must equal the Lean pool model's."""
    bins = build_libcheck([c for c in LIBCFG[tier] if c[0] in ('dbg', 'rel', 'rel_safe')])
    enums = libcheck_enums()
    caps = P.run_capture([enums['TokA'], enums['TokB']])
    if any(c is None or c.verdict != 'ACCEPT' for c in caps):
        run.violation('setup', dict(what='libcheck token types not accepted by the derive'), no_input=True)
        return dict(evaluations=0)
    reqs = []
    for src in ['ab', 'ab 12', 'é', 'x', '', 'ab中']:
        hx = P.hexs(src.encode('utf-8'))
        for warm in (1, 2, 3):
            for adv in (['next'], ['bump', '2'], ['bump', '1'], ['next', 'bump', '1'], ['bump', '3', 'next']):
                for (a, b) in ((0, 1), (1, 0)):
                    step = []
                    k = 0
                    while k < len(adv):
                        if adv[k] == 'next':
                            step += ['next', str(b)]
                            k += 1
                        else:
                            step += ['bump', str(b), adv[k + 1]]
                            k += 2
                    for copy in (['clonefrom', str(a), str(b)], ['clone', str(b)]):
                        tgt = str(a) if copy[0] == 'clonefrom' else '2'
                        ops = ['fresh', '0', '1'] + step * warm + copy + ['bump', tgt, '1', 'next', tgt, 'snext', tgt, 'bump', tgt, '2', 'next', str(b)]
                        for p0 in ('0', '1'):
                            reqs.append('API %s %s %s' % (hx, p0, ' '.join(ops)))
    lines = ['CASE A'] + caps[0].dump
    for i, l in enumerate(caps[0].leaves):
        if l[3] == 'Ws':
            lines.append('CB %d 3' % i)
    lines += ['CASE B'] + caps[1].dump
    for rq in reqs:
        t = rq.split(' ')
        lines.append('Q API A B %s %s %s' % (t[1], t[2], ' '.join(t[3:])))
    ans = P.run_lean(lines, nproc=0)
    n = bad = 0
    for name, (binp, err) in bins.items():
        if binp is None:
            run.violation('libcheck-build', dict(config=name, stderr=err), no_input=True)
            continue
        out, rc = run_lib(binp, reqs)
        for rq in reqs:
            t = rq.split(' ')
            mv = ans.get('B API A B %s %s %s' % (t[1], t[2], ' '.join(t[3:])))
            v = out.get(rq)
            n += 1
            if v is None or 'BADSPAN' in v or 'BADSLICE' in v or v == 'PANIC':
                bad += 1
                run.violation('copy-span', dict(config=name, request=rq, observed=v, model=mv,
                                                what='after a copy (clone_from / clone) between lexers over different sources a lexer holds a span outside its own source or off its char boundaries: slice() / remainder() are not safe'),
                              key='copyspan|' + rq)
            elif mv is not None and v != mv:
                bad += 1
                run.violation('tie', dict(config=name, request=rq, observed=v, model=mv, correspondence='Lexer API (clone_from, clone, bump, next over two sources) vs LogosModel.Api'),
                              no_input=True, key='copytie|' + rq)
    return dict(evaluations=n, failures=bad)


def bump_bounds_probe(run, tier, log=print):
    """C05 through Lexer::bump: after any bump (ordinary, beyond the end, overflowing usize; successful or panicking and
    caught), in all four builds (debug/release x default/forbid_unsafe), span() must satisfy start <= end <= len and the
    slices must be obtainable.  Overflowing amounts matter in release builds, where `+` wraps."""
    bins = build_libcheck(LIBCFG[tier])
    reqs = []
    for kind, srcs in (('s', ['ab c', 'aé', 'ab中c', '']), ('b', [b'ab c', b'ab \xff\xfe', b''])):
        for src in srcs:
            b = src.encode('utf-8') if isinstance(src, str) else src
            ln = len(b)
            ns = sorted(set(list(range(0, ln + 3)) + [USIZE_MAX, USIZE_MAX - 1, USIZE_MAX - 2, USIZE_MAX - ln, USIZE_MAX - ln + 1, USIZE_MAX - ln - 1, 2 ** 63, 2 ** 63 + 1, 2 ** 64 - 4]))
            for nexts in (0, 1, 2, 3):
                for n in ns:
                    if 0 <= n <= USIZE_MAX:
                        reqs.append('BUMP %s %s %d %d' % (kind, P.hexs(b), nexts, n))
    cnt = bad = 0
    for name, (binp, err) in bins.items():
        if binp is None:
            run.violation('libcheck-build', dict(config=name, stderr=err), no_input=True)
            continue
        out, rc = run_lib(binp, reqs)
        for rq in reqs:
            v = out.get(rq)
            if v is None:
                bad += 1
                run.violation('bump-bounds', dict(config=name, request=rq, what='no answer (process died)'), key='bumpo|' + rq)
                continue
            if not v.startswith('pre:'):
                continue
            cnt += 1
            t = rq.split(' ')
            ln = len(bytes.fromhex(t[2] if t[2] != '-' else ''))
            parts = v.split(' ')
            s_, e_ = int(parts[2]), int(parts[3])
            if s_ > e_ or e_ > ln or 'INVALIDSPAN' in v or 'SLICEPANIC' in v:
                bad += 1
                run.violation('bump-bounds', dict(config=name, request=rq, observed=v,
                                                  what='after bump(%s) (%s) span() is %d..%d for a source of length %d' % (t[4], parts[1], s_, e_, ln)),
                              key='bumpo|' + rq)
    return dict(evaluations=cnt, failures=bad, configs=list(bins))


def bump_boundary_probe(run, tier, log=print):
    """C04 through Lexer::bump: whatever a bump does (succeeds, or panics and is caught), span() of a str lexer must stay on
    char boundaries inside the source.  Real Lexer, two builds; the oracle is is_char_boundary on the reported span."""
    bins = build_libcheck([c for c in LIBCFG[tier] if c[0] in ('dbg', 'rel_safe')])
    reqs = []
    for src in ['aé', 'ab λx', '#a #λ', 'ab中c', '😀x', 'ééé']:
        b = src.encode('utf-8')
        for nexts in (0, 1, 2):
            for n in list(range(0, len(b) + 3)) + [USIZE_MAX, USIZE_MAX - 1, 2 ** 63]:
                reqs.append('BUMP s %s %d %d' % (P.hexs(b), nexts, n))
    n = bad = 0
    for name, (binp, err) in bins.items():
        if binp is None:
            run.violation('libcheck-build', dict(config=name, stderr=err), no_input=True)
            continue
        out, rc = run_lib(binp, reqs)
        for rq in reqs:
            v = out.get(rq)
            if v is None or not v.startswith('pre:'):
                continue
            n += 1
            t = rq.split(' ')
            src = bytes.fromhex(t[2]).decode('utf-8')
            parts = v.split(' ')
            s_, e_ = int(parts[2]), int(parts[3])
            bounds = {0}
            acc = 0
            for ch in src:
                acc += len(ch.encode('utf-8'))
                bounds.add(acc)
            if s_ not in bounds or e_ not in bounds or 'INVALIDSPAN' in v or 'SLICEPANIC' in v:
                bad += 1
                run.violation('bump-boundary', dict(config=name, request=rq, observed=v,
                                                    what='after bump(%s) (%s) the span %d..%d of a str lexer is not on char boundaries inside the source' % (t[4], parts[1], s_, e_)),
                              key='bumpb|' + rq)
    return dict(evaluations=n, failures=bad)
