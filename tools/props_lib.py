"""Checks that exercise the logos runtime library directly (Source::read, stack depth, bump, API histories)."""
import os, sys, json


def source_read_differential(run, tier, seed, log=print):
    return dict(evaluations=0, distinct_nontrivial=0, note='not built yet')


def stack_check(run, r, tier, seed, log=print):
    return dict(note='not built yet')
