#!/usr/bin/env python3
"""usage: agent_prompt.py <round> <PROP>   -- prints the prompt given to a fresh sub-agent for a seeded change
(the agent gets the property text, the short names of earlier changes for the property and a scratch worktree; nothing from /verif)"""
import sys, json, os
rnd, prop = sys.argv[1], sys.argv[2]
twist = '--twist' in sys.argv                              # twist: naive, and asked for cooperating sites / multi-step triggers
naive = '--naive' in sys.argv or twist                              # naive: the agent is told nothing about earlier changes (what a stranger would write)
sys.argv = [a for a in sys.argv if a not in ('--naive', '--twist')]
target = sys.argv[3] if len(sys.argv) > 3 else None     # optional: the file the change has to be made in
props = {json.loads(l)['id']: json.loads(l) for l in open('/verif/properties.jsonl')}
p = props[prop]
earlier = sorted(d for d in os.listdir('/verif/seeded') if d.split('-')[0].rstrip('abcdefghijklmnopqrstuvwxyz') == prop)
names = '\n'.join('  - ' + d.split('-', 1)[1].replace('-', ' ') for d in earlier)
import re, collections
touched = collections.Counter()
for d in earlier:
    try:
        for m in re.finditer(r'^diff --git a/(\S+)', open('/verif/seeded/%s/patch.diff' % d).read(), re.M):
            touched[m.group(1)] += 1
    except OSError:
        pass
files = '\n'.join('  - %s (%d earlier changes)' % (f, k) for f, k in touched.most_common())
wt = '/tmp/w%s-%s' % (rnd, prop) + (('-' + os.path.basename(target).replace('.rs', '')) if target else '')
where = ('\n   The core of your change MUST be in the file %s (helpers elsewhere are fine): this round looks at parts of the code that earlier rounds left alone.' % target) if target else ''
text = (f"""You are helping to test a verification effort for the Rust crate maciejhirsz/logos (a derive-macro lexer generator). Your job is to write ONE realistic, subtle change to logos that breaks the semantic property quoted below while the crate still compiles and its existing test suite still passes, plus a demonstration that exposes it.

Work ONLY inside the scratch git worktree {wt} (a checkout of the logos repository). Do not read, list or touch /verif or /repo, and do not look at git history or other worktrees under /tmp. The sandbox has no network: always pass --offline to cargo (CARGO_NET_OFFLINE=true). Do not enable or rely on the cargo features `verif_hooks` / `verif_trace` or the files logos-codegen/src/verif.rs and src/verif_trace.rs (they are instrumentation; leave them alone).

THE PROPERTY ({prop}: {p['title']})
{p['statement']}
Quantifier: {(p.get('quantifier') or {}).get('text', '')}

WHAT TO PRODUCE
1. A change to the logos sources (logos-codegen/, src/, logos-derive/, logos-cli/ - not tests) that makes the property false for some definitions/inputs/call sequences. It should look like something a maintainer could plausibly write (an optimisation, a refactoring slip, a boundary condition, a helper that is subtly wrong, two sites that each look fine alone) - not sabotage, and not something ordinary use would expose at once: it must need something specific to manifest (an unusual input, a particular definition shape, a multi-step sequence of calls, a particular feature combination, a boundary value).
2. The existing suite must pass UNEDITED (do not modify, regenerate or add any file under a tests/ directory, snapshot files included, other than the demonstration of item 3). The whole existing suite must still pass with the change: `cargo test --workspace --no-fail-fast --offline` run in {wt} (172 passed counting doctests, snapshot tests included), with your demonstration file moved aside.
3. A demonstration: the file {wt}/tests/tests/seeded_demo.rs (an integration test of the `tests` crate, run with `cargo test -p tests --test seeded_demo --offline`) that FAILS with your change applied and PASSES on the unchanged sources. It should check the property on the triggering case in the property's own terms.
4. Earlier rounds already produced the following changes for this property. Yours must use a DIFFERENT mechanism in a DIFFERENT place of the code (another file or another function, another trigger):
{names}
   Files those earlier changes touched (prefer a file, or at least a function, that is not on this list or is rarely on it; the whole workspace is in scope: logos-codegen/src/**, src/*.rs, logos-cli/src/main.rs, logos-derive):
{files}{where}
5. Verify all three facts yourself (suite green with the change, demo fails with it, demo passes without it - use `git diff > my_change.diff`, `git checkout -- logos-codegen src logos-derive logos-cli`, and `git apply my_change.diff`; never `git stash`). Then leave the worktree with the change APPLIED and the demo file present, and write {wt}/meta.txt containing: a short name for the change (a few words), what the change is and where, which clause of the property it breaks, exactly what it needs in order to manifest, and the commands you ran with their outcomes.

6. While reading the code you may notice that the UNCHANGED sources already break the property (or something a user would expect along the same lines) for some definition or input. Do not repair it and do not build your change on it; check it if that is cheap, and describe it in a section headed SIDE FINDING in meta.txt (the definition or input, what happens, what should happen), and mention it in your final answer. Write "SIDE FINDING: none" if you noticed nothing.

Keep the build output inside the worktree (default target dir). Your final answer should be a brief report: short name, files touched, trigger, and the three verification outcomes.""")
if naive:
    a = text.index('4. Earlier rounds'); b = text.index('5. Verify all three')
    text = text[:a] + '4. Choose the mechanism and the place freely; the whole workspace is in scope (logos-codegen/src/**, src/*.rs, logos-cli/src/main.rs, logos-derive).\n' + text[b:]
if twist:
    text = text.replace('4. Choose the mechanism and the place freely;', '4. Prefer a change made of TWO cooperating sites that each look fine when read alone (a helper and its caller, a producer and a consumer in different files, the code generator and the run-time library), or one that only shows after a particular SEQUENCE of steps (several calls in a certain order, a definition feature combined with a particular input shape and build configuration). Avoid the first idea that comes to mind: an evaluator has probably seen it. Choose the place freely;')
print(text)
