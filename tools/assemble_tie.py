"""Predictive tie for the leaf assembly of `generate` (Lean: LogosModel/Assemble.lean): from the structure of a definition (skips,
variants with their shapes and attributes) the model predicts the leaf table in the order Graph::new receives it - kind, priority
(explicit / 2 x byte length for tokens / '?' for the complexity of the compiled regex), callback flag, variant name - and the
number of shape diagnostics; compared with the LEAF lines of the capture hook and with the derive's verdict."""
import itertools
import pipeline as P
from defs import rust_str


def spec_source(skips, variants, name='T'):
    out = ['#[derive(Logos, Debug, PartialEq, Clone)]']
    for (pat, prio, cb) in skips:
        args = [rust_str(pat)] + (['priority = %d' % prio] if prio is not None else []) + (['callback = |_| logos::Skip'] if cb else [])
        out.append('#[logos(skip(%s))]' % ', '.join(args))
    out.append('pub enum %s {' % name)
    for (vname, shape, attrs) in variants:
        for (kind, pat, prio, cb) in attrs:
            args = [rust_str(pat)] + (['|_| 0u8'] if cb else []) + (['priority = %d' % prio] if prio is not None else [])
            out.append('    #[%s(%s)]' % ('token' if kind == 't' else 'regex', ', '.join(args)))
        fields = {'u': '', 'n': ' { x: u8 }'}.get(shape)
        if fields is None:
            fields = '(%s)' % ', '.join(['u8'] * int(shape[1:]))
        out.append('    %s%s,' % (vname, fields))
    out.append('}')
    return '\n'.join(out)


def spec_query(skips, variants):
    args = ['s:%s:%d' % ('-' if prio is None else prio, 1 if cb else 0) for (_, prio, cb) in skips]
    for (vname, shape, attrs) in variants:
        args.append('v:%s:%s' % (vname, shape))
        for (kind, pat, prio, cb) in attrs:
            args.append('a:%s:%s:%d:%d' % (kind, '-' if prio is None else prio, 1 if cb else 0, len(pat.encode('utf-8'))))
    return 'Q ASSEMBLE ' + ' '.join(args)


def specs():
    """every variant shape x attribute lists (none, one, several; token / regex; explicit / default priority; with / without callback),
    with and without skips; every pattern distinct so that nothing ties"""
    out = []
    n = [0]

    def pat(kind):
        n[0] += 1
        w = 'p%dq' % n[0]
        return w if kind == 't' else w + '+'
    attr_lists = [[], [('t', None, False)], [('r', None, True)], [('t', 5, True), ('r', None, False)], [('r', 9, False), ('r', None, True), ('t', None, False)]]
    for shape in ['u', 't1', 't0', 't2', 't3', 'n']:
        for al in attr_lists:
            for skips in ([], [('s%d ' % len(out), None, False), ('z%d+' % len(out), 3, True)]):
                attrs = [(k, pat(k), pr, cb) for (k, pr, cb) in al]
                variants = [('Lead', 'u', [('t', pat('t'), None, False)]), ('V', shape, attrs), ('Tail', 't1', [('r', pat('r'), None, True)])]
                out.append((skips, variants))
    return out


def corpus_spec(d):
    """the structure of a corpus definition (defs.Def): one attribute per variant"""
    skips = [(l.pat if not l.is_bytes else l.pat.decode('latin-1'), l.prio, bool(l.cb)) for l in d.leaves if l.kind == 'skip']
    variants = []
    for l in d.leaves:
        if l.kind == 'skip':
            continue
        ll = len(l.pat) if l.is_bytes else len(l.pat.encode('utf-8'))
        variants.append((l.variant, 't1' if l.value else 'u', [('t' if l.kind == 'token' else 'r', ll, l.prio, bool(l.cb))]))
    return skips, variants


def corpus_query(d):
    skips, variants = corpus_spec(d)
    args = ['s:%s:%d' % ('-' if prio is None else prio, 1 if cb else 0) for (_, prio, cb) in skips]
    for (vname, shape, attrs) in variants:
        args.append('v:%s:%s' % (vname, shape))
        for (kind, ll, prio, cb) in attrs:
            args.append('a:%s:%s:%d:%d' % (kind, '-' if prio is None else prio, 1 if cb else 0, ll))
    return 'Q ASSEMBLE ' + ' '.join(args)


def parse_answer(a):
    if not a or not a.startswith('errs='):
        return None
    head, _, rest = a.partition(' ')
    leaves = []
    for part in rest.split(';'):
        t = part.split(' ')
        if len(t) == 4:
            leaves.append((t[0], t[1], t[2], t[3]))
    return int(head[5:]), leaves


def agree(model, cap):
    """model: (errs, [(kind, prio|?, cb, name)]); cap.leaves: [(prio, kind, hascb, name)]"""
    errs, leaves = model
    if len(leaves) != len(cap.leaves):
        return False
    for (k, p, cb, nm), (rp, rk, rcb, rnm) in zip(leaves, cap.leaves):
        if int(k) != rk or int(cb) != rcb or nm != rnm or (p != '?' and int(p) != rp):
            return False
    return True


def tie_specs(run):
    sp = specs()
    srcs = [spec_source(s, v) for (s, v) in sp]
    caps = P.run_capture(srcs)
    lines = ['CASE as'] + [spec_query(s, v) for (s, v) in sp]
    ans = P.run_lean(lines, nproc=1)
    same = 0
    for (s, v), src, cap in zip(sp, srcs, caps):
        m = parse_answer(ans.get('as ' + spec_query(s, v)[2:]))
        if cap is None or cap.verdict not in ('ACCEPT', 'REJECT') or m is None:
            continue
        ok = (m[0] > 0) == (cap.verdict == 'REJECT') and (cap.nodump or agree(m, cap))
        if ok:
            same += 1
        else:
            run.violation('tie', dict(definition=src, model=ans.get('as ' + spec_query(s, v)[2:]), derive_verdict=cap.verdict, derive_leaves=cap.leaves, derive_errors=cap.errs[:3],
                                      correspondence='leaf assembly of generate (lib.rs) vs LogosModel.Assemble.assemble'), no_input=True, key='astie|' + src)
    return dict(definitions=len(sp), agree=same)


def tie_corpus(corpus, caps, accepted):
    """recorded only: the lexer corpus (one attribute per variant)"""
    lines = ['CASE ac']
    qs = {}
    for i in accepted:
        qs[i] = corpus_query(corpus[i])
        lines.append(qs[i])
    ans = P.run_lean(lines, nproc=1)
    same, diff = 0, []
    for i in accepted:
        m = parse_answer(ans.get('ac ' + qs[i][2:]))
        if m is not None and m[0] == 0 and agree(m, caps[i]):
            same += 1
        elif len(diff) < 3:
            diff.append(dict(origin=corpus[i].origin, model=ans.get('ac ' + qs[i][2:]), derive_leaves=caps[i].leaves))
    return dict(definitions=len(accepted), agree=same, differing_samples=diff)
