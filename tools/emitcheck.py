"""Static validation of the code the generator renders against the captured graph.

From the text of the generated `lex` body (tail-call or state-machine flavour) this module rebuilds,
for every state, what the emitted code does: the fast-loop test (LUT bit), the setup block
(`lex.end(offset)` / `lex.end(offset - 1)` + context), the fork (comparison chains, LUT tests or the
256-entry jump table) evaluated on all 256 byte values, and the end-of-input code (is_prefix guard, root
test, end-of-input transition).  The result must be exactly the captured `Graph` as the Lean
interpreter reads it (`StateData.next`, `record`, `atEoi`).  A difference names a (state, byte) pair.
This is untrusted Python: it can only raise alarms (which are then turned into inputs and confirmed on
the compiled lexer), never discharge an obligation."""
import re


def lit(tok):
    tok = tok.strip()
    m = re.fullmatch(r'(\d+)u8', tok)
    if m:
        return int(m.group(1))
    m = re.fullmatch(r"b'(\\?.)'", tok)
    if m:
        s = m.group(1)
        if s.startswith('\\'):
            return {'n': 10, 't': 9, 'r': 13, '0': 0, '\\': 92, "'": 39, '"': 34}.get(s[1], ord(s[1]))
        return ord(s)
    raise ValueError('literal ' + tok)


def block_end(s, i):
    """index just after the brace block starting at s[i] == '{'"""
    depth = 0
    while i < len(s):
        if s[i] == '{':
            depth += 1
        elif s[i] == '}':
            depth -= 1
            if depth == 0:
                return i + 1
        i += 1
    raise ValueError('unbalanced')


def eval_cond(cond, luts, b):
    cond = cond.strip()
    m = re.fullmatch(r'_TABLE_(\d+) \[byte as :: core :: primitive :: usize\] & (\d+)u8 != 0', cond)
    if m:
        return (luts[int(m.group(1))][b] & int(m.group(2))) != 0
    # disjunction of parenthesised sub-conditions
    parts = []
    depth = 0
    cur = ''
    for ch in cond:
        if ch == '(':
            depth += 1
        if ch == ')':
            depth -= 1
        cur += ch
        if depth == 0 and cur.endswith('||'):
            parts.append(cur[:-2].strip())
            cur = ''
    if cur.strip():
        parts.append(cur.strip())
    for p in parts:
        p = p.strip()
        assert p.startswith('(') and p.endswith(')'), p
        p = p[1:-1].strip()
        m = re.fullmatch(r"byte == (\S+)", p)
        if m:
            if b == lit(m.group(1)):
                return True
            continue
        m = re.fullmatch(r":: core :: matches ! \(byte , (\S+) \.\.= (\S+)\)((?: && byte != \S+)*)", p)
        if m:
            lo, hi = lit(m.group(1)), lit(m.group(2))
            exc = [lit(x) for x in re.findall(r'&& byte != (\S+)', m.group(3))]
            if lo <= b <= hi and b not in exc:
                return True
            continue
        raise ValueError('condition ' + p)
    return False


def parse_code(code):
    """-> dict(root, states={id: dict(loop, setup, next[256], eoi, prefix_guard, root_guard)}, sm=bool)"""
    # byte literals holding a brace would confuse the brace matcher
    code = code.replace("b'{'", '123u8').replace("b'}'", '125u8').replace("b'('", '40u8').replace("b')'", '41u8').replace("b'['", '91u8').replace("b']'", '93u8')
    luts = {}
    for m in re.finditer(r'const _TABLE_(\d+) : \[:: core :: primitive :: u8 ; 256\] = \[([^\]]*)\]', code):
        luts[int(m.group(1))] = [int(x.strip()[:-2]) for x in m.group(2).split(',') if x.strip()]
    sm = 'enum LogosState' in code
    states = {}
    if sm:
        m = re.search(r'let mut state = LogosState :: State(\d+) ;', code)
        root = int(m.group(1))
        bodies = []
        for m in re.finditer(r'LogosState :: State(\d+) => \{', code):
            j = m.end() - 1
            bodies.append((int(m.group(1)), code[j:block_end(code, j)]))
        goto = r'state = LogosState :: State(\d+) ; continue ;'
    else:
        m = re.search(r'state(\d+) \(lex , lex \. offset \(\) , _Option :: None\)', code)
        root = int(m.group(1))
        bodies = []
        for m in re.finditer(r'fn state(\d+) <[^{]*\{', code):
            j = m.end() - 1
            bodies.append((int(m.group(1)), code[j:block_end(code, j)]))
        goto = r'return state(\d+) \(lex , offset , context\) ;'
    for sid, body in bodies:
        st = dict(loop=None, early=None, accept=None, eoi=None, prefix_guard=False, root_guard=False, next=[None] * 256)
        m = re.search(r'_TABLE_(\d+) \[byte as :: core :: primitive :: usize\] & (\d+)u8 == 0 \} _fast_loop ! \(lex , loop_test , offset\) ;', body)
        if m:
            t, mask = int(m.group(1)), int(m.group(2))
            st['loop'] = [bool(luts[t][b] & mask) for b in range(256)]
        m = re.search(r'lex \. end \(offset( - 1)?\) ; context = _Option :: Some \(LogosLeaf :: Leaf(\d+)\) ;', body)
        if m:
            if m.group(1):
                st['accept'] = int(m.group(2))
            else:
                st['early'] = int(m.group(2))
        k = body.index('if let _Option :: Some (byte) = other {')
        j = body.index('{', k)
        e = block_end(body, j)
        some_blk = body[j + 1:e - 1]
        rest = body[e:]
        assert rest.lstrip().startswith('else {'), rest[:40]
        j2 = rest.index('{')
        eoi_blk = rest[j2 + 1:block_end(rest, j2) - 1]
        # fork
        if 'TABLE [byte as :: core :: primitive :: usize]' in some_blk:
            m = re.search(r'const TABLE : \[[^;]*; 256\] = (?:\{ use LogosNextState :: \* ; )?\[([^\]]*)\]', some_blk)
            ents = [x.strip() for x in m.group(1).split(',') if x.strip()]
            assert len(ents) == 256, len(ents)
            for b, en in enumerate(ents):
                mm = re.search(r'State(\d+)', en)
                st['next'][b] = int(mm.group(1)) if mm else None
            if not sm:
                # every named entry must have a match arm jumping to the state of the same number, and the offset must be restored
                for t in {x for x in st['next'] if x is not None}:
                    assert re.search(r'LogosNextState :: State%d => \{ return state%d \(lex , offset , context\) ; \}' % (t, t), some_blk), 'table arm %d' % t
                assert 'offset += 1 ; match TABLE' in some_blk and some_blk.rstrip().endswith('offset -= 1 ;'), 'table fork shape'
            else:
                assert re.search(r'if let _Option :: Some \(next_state\) = next_state \{ offset \+= 1 ; state = next_state ; continue ; \}', some_blk), 'sm table shape'
        else:
            conds = []
            for m in re.finditer(r'if (.*?) \{ offset \+= 1 ; ' + goto + r' \}', some_blk):
                conds.append((m.group(1), int(m.group(2))))
            leftover = re.sub(r'if (.*?) \{ offset \+= 1 ; ' + goto + r' \}', '', some_blk).strip()
            assert leftover == '', 'unparsed fork text: ' + leftover[:80]
            for b in range(256):
                for c, t in conds:
                    if eval_cond(c, luts, b):
                        st['next'][b] = t
                        break
        # bytes consumed by the fast loop stay in the state
        if st['loop']:
            for b in range(256):
                if st['loop'][b]:
                    st['next'][b] = sid
        # end of input
        e2 = eoi_blk
        if 'if lex . is_prefix () { lex . end (lex . offset ()) ; return _Option :: None }' in e2:
            st['prefix_guard'] = True
            e2 = e2.replace('if lex . is_prefix () { lex . end (lex . offset ()) ; return _Option :: None }', '')
        if 'if lex . offset () == offset { return _Option :: None }' in e2:
            st['root_guard'] = True
            e2 = e2.replace('if lex . offset () == offset { return _Option :: None }', '')
        m = re.fullmatch(r'\s*offset \+= 1 ; ' + goto + r'\s*', e2)
        if m:
            st['eoi'] = int(m.group(1))
        else:
            assert e2.strip() == '', 'unparsed eoi text: ' + e2[:80]
        tail = rest[block_end(rest, j2):].strip()
        assert tail.startswith('_take_action ! (lex , offset , context , state)'), tail[:60]
        states[sid] = st
    return dict(root=root, states=states, sm=sm)


def compare(code, cap):
    """-> list of differences (dicts with state, byte/what). Empty = the code implements the captured graph."""
    try:
        em = parse_code(code)
    except Exception as ex:   # unexpected code shape: report as one difference
        return [dict(what='generated code has an unexpected shape: %r' % (ex,))]
    out = []
    if em['root'] != cap.root:
        out.append(dict(what='entry state %d, graph root %d' % (em['root'], cap.root)))
    if set(em['states']) != set(range(len(cap.states))):
        out.append(dict(what='state set differs: code %s, graph %d states' % (sorted(em['states'])[:5], len(cap.states))))
        return out
    for sid, g in enumerate(cap.states):
        e = em['states'][sid]
        ge = g['early'] if g['early'] >= 0 else None
        ga = g['accept'] if g['accept'] >= 0 else None
        if e['early'] != ge or (ge is None and e['accept'] != ga):
            out.append(dict(state=sid, what='setup block records early=%s accept=%s, graph has early=%s accept=%s' % (e['early'], e['accept'], ge, ga)))
        geoi = g['eoi'] if g['eoi'] >= 0 else None
        if e['eoi'] != geoi:
            out.append(dict(state=sid, what='end-of-input transition %s, graph %s' % (e['eoi'], geoi)))
        want_guard = bool(g['edges']) or geoi is not None
        if e['prefix_guard'] != want_guard:
            out.append(dict(state=sid, what='is_prefix guard %s, expected %s' % (e['prefix_guard'], want_guard)))
        if e['root_guard'] != (sid == cap.root):
            out.append(dict(state=sid, what='root guard %s' % e['root_guard']))
        selfcls = [r for (t, rs) in g['edges'] if t == sid for r in rs]
        if bool(e['loop']) != bool(selfcls):
            out.append(dict(state=sid, what='fast loop %s but self edge %s' % (bool(e['loop']), bool(selfcls))))
        for b in range(256):
            want = None
            for (t, rs) in g['edges']:
                if any(lo <= b <= hi for lo, hi in rs):
                    want = t
                    break
            if e['next'][b] != want:
                out.append(dict(state=sid, byte=b, what='on byte %d the code goes to %s, the graph to %s' % (b, e['next'][b], want)))
                break
    return out


# ---------------------------------------------------------------------------------------------------
# The rendering *predicted* by the Lean model (LogosModel/Emit.lean, driver query EMIT) against the text
# ---------------------------------------------------------------------------------------------------
def _lut_id(t, mask):
    return int(t) * 8 + (int(mask).bit_length() - 1)


def _cond_plan(cond):
    cond = cond.strip()
    m = re.fullmatch(r'_TABLE_(\d+) \[byte as :: core :: primitive :: usize\] & (\d+)u8 != 0', cond)
    if m:
        return 'L%d' % _lut_id(m.group(1), m.group(2))
    parts, depth, cur = [], 0, ''
    for ch in cond:
        if ch == '(':
            depth += 1
        if ch == ')':
            depth -= 1
        cur += ch
        if depth == 0 and cur.endswith('||'):
            parts.append(cur[:-2].strip())
            cur = ''
    if cur.strip():
        parts.append(cur.strip())
    out = []
    for p in parts:
        p = p.strip()[1:-1].strip()
        m = re.fullmatch(r'byte == (\S+)', p)
        if m:
            v = lit(m.group(1))
            out.append('%d-%d' % (v, v))
            continue
        m = re.fullmatch(r':: core :: matches ! \(byte , (\S+) \.\.= (\S+)\)((?: && byte != \S+)*)', p)
        if not m:
            raise ValueError('condition ' + p)
        exc = [lit(x) for x in re.findall(r'&& byte != (\S+)', m.group(3))]
        out.append('%d-%d' % (lit(m.group(1)), lit(m.group(2))) + ''.join('!%d' % e for e in exc))
    return 'C' + '|'.join(out)


def extract_plan(code):
    """the rendering decisions read off the generated text, in the format of the driver's EMIT answer"""
    code = code.replace("b'{'", '123u8').replace("b'}'", '125u8').replace("b'('", '40u8').replace("b')'", '41u8').replace("b'['", '91u8').replace("b']'", '93u8')
    luts = {}
    for m in re.finditer(r'const _TABLE_(\d+) : \[:: core :: primitive :: u8 ; 256\] = \[([^\]]*)\]', code):
        luts[int(m.group(1))] = [int(x.strip()[:-2]) for x in m.group(2).split(',') if x.strip()]
    sm = 'enum LogosState' in code
    bodies = []
    if sm:
        for m in re.finditer(r'LogosState :: State(\d+) => \{', code):
            j = m.end() - 1
            bodies.append((int(m.group(1)), code[j:block_end(code, j)]))
        goto = r'state = LogosState :: State(\d+) ; continue ;'
    else:
        for m in re.finditer(r'fn state(\d+) <[^{]*\{', code):
            j = m.end() - 1
            bodies.append((int(m.group(1)), code[j:block_end(code, j)]))
        goto = r'return state(\d+) \(lex , offset , context\) ;'
    items = {}
    for sid, body in bodies:
        loop = '-'
        m = re.search(r'_TABLE_(\d+) \[byte as :: core :: primitive :: usize\] & (\d+)u8 == 0 \} _fast_loop ! \(lex , loop_test , offset\) ;', body)
        if m:
            loop = str(_lut_id(m.group(1), m.group(2)))
        k = body.index('if let _Option :: Some (byte) = other {')
        j = body.index('{', k)
        some_blk = body[j + 1:block_end(body, j) - 1]
        if 'TABLE [byte as :: core :: primitive :: usize]' in some_blk:
            m = re.search(r'const TABLE : \[[^;]*; 256\] = (?:\{ use LogosNextState :: \* ; )?\[([^\]]*)\]', some_blk)
            ents = [x.strip() for x in m.group(1).split(',') if x.strip()]
            tab = []
            for en in ents:
                mm = re.search(r'State(\d+)', en)
                tab.append(mm.group(1) if mm else '-')
            fork = 'T' + ','.join(tab)
        else:
            conds = []
            for m in re.finditer(r'if (.*?) \{ offset \+= 1 ; ' + goto + r' \}', some_blk):
                conds.append('%s>%s' % (_cond_plan(m.group(1)), m.group(2)))
            fork = 'M' + ';'.join(conds)
        items[sid] = '%d:%s:%s' % (sid, loop, fork)
    # look-up tables by id: bit (id % 8) of table (id // 8)
    nl = 0
    for t, arr in luts.items():
        used = 0
        for v in arr:
            used |= v
        nl = max(nl, t * 8 + used.bit_length())
    lut_hex = []
    for i in range(nl):
        arr = luts[i // 8]
        bits = [(arr[b] >> (i % 8)) & 1 for b in range(256)]
        hx = ''
        for q in range(0, 256, 4):
            hx += '%x' % (bits[q] * 8 + bits[q + 1] * 4 + bits[q + 2] * 2 + bits[q + 3])
        lut_hex.append(hx)
    return ' '.join(items[k] for k in sorted(items)) + ' LUTS ' + ' '.join(lut_hex)


def compare_plan(code, predicted):
    """-> None if the text shows exactly the predicted decisions, else a short description of the first difference"""
    try:
        got = extract_plan(code)
    except Exception as ex:
        return 'generated code has an unexpected shape: %r' % (ex,)
    if got == predicted:
        return None
    ga, pa = got.split(' '), predicted.split(' ')
    for k, (x, y) in enumerate(zip(ga, pa)):
        if x != y:
            return 'item %d: code has %s, model predicts %s' % (k, x[:160], y[:160])
    return 'different number of items: code %d, model %d' % (len(ga), len(pa))
