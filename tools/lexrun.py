"""Shared stage "lexrun": corpus -> real derive (capture) -> zoo (compiled lexers, several configurations)
-> Lean interpreter model / certificate / reference lexer -> comparison tables.

The result is cached under /verif/.cache keyed by (hash of /repo's working tree sources, hash of
/verif's own sources, seed, tier), so that the properties sharing this stage do not rebuild it; any
edit to /repo or /verif changes the key."""
import os, sys, json, random, time, hashlib, pickle
sys.path.insert(0, os.path.dirname(os.path.abspath(__file__)))
import defs as D
import zoo as Z
import pipeline as P

CACHE = os.path.join(P.VERIF, '.cache')


def verif_hash():
    h = hashlib.sha256()
    for root in ('tools', 'lean/LogosModel', 'harness/capture/src', 'harness/zoo_rt/src'):
        for dp, dn, fn in os.walk(os.path.join(P.VERIF, root)):
            dn.sort()
            for f in sorted(fn):
                if f.endswith(('.py', '.lean', '.rs', '.toml')):
                    h.update(f.encode())
                    h.update(open(os.path.join(dp, f), 'rb').read())
    for f in ('lean/Main.lean', 'lean/lakefile.toml'):
        h.update(open(os.path.join(P.VERIF, f), 'rb').read())
    return h.hexdigest()[:16]


TIERS = {
    'quick': dict(n_gen=40, configs=['tail', 'tail_safe', 'sm', 'sm_safe', 'trace'], n_random=60, all_bytes=False, cb_p=0.25),
    'thorough': dict(n_gen=400, configs=['tail', 'tail_safe', 'sm', 'sm_safe', 'trace', 'sm_trace'], n_random=250, all_bytes=True, cb_p=0.25, n_partial=60),
}


def lexrun(seed, tier, log=print, extra_modes=('p',)):
    key = 'lexrun-%s-%s-%s-%s' % (P.repo_tree_hash(), verif_hash(), seed, tier)
    os.makedirs(CACHE, exist_ok=True)
    cpath = os.path.join(CACHE, key + '.pkl')
    marker = os.path.join(P.WORK, 'stage-%s.key' % tier)
    if os.path.exists(cpath) and os.path.exists(marker) and open(marker).read().strip() == key:
        # the cached streams are only reused when the binaries on disk (capture, refmatch, reflex, zoo of this tier)
        # are the ones this stage built; the harness is rebuilt anyway (a no-op when /repo has not changed since)
        log('lexrun: reusing cached stage %s' % key)
        P.build_harness()
        P.build_lean()
        r = pickle.load(open(cpath, 'rb'))
        r['cached'] = True
        return r
    t0 = time.time()
    cfg = TIERS[tier]
    P.build_harness()
    P.build_lean()
    R = random.Random(seed)
    corpus = D.corpus(seed, cfg['n_gen'], dict(cb_p=cfg['cb_p'], errcb_p=0.1))
    srcs = [d.source('T%d' % i) for i, d in enumerate(corpus)]
    caps = P.run_capture(srcs)
    log('lexrun: %d definitions, %d accepted (%.1fs)' % (len(corpus), sum(1 for c in caps if c.verdict == 'ACCEPT'), time.time() - t0))
    # very large graphs (hundreds of states) cost minutes of rustc time per configuration: leave them out of the zoo
    accepted = [i for i, c in enumerate(caps) if c.verdict == 'ACCEPT' and not c.nodump and len(c.states) <= 260]
    skipped_large = [i for i, c in enumerate(caps) if c.verdict == 'ACCEPT' and not c.nodump and len(c.states) > 260]
    # inputs
    inputs = {}
    stats = {}
    for i in accepted:
        gi, st = P.graph_inputs(caps[i], corpus[i].utf8, all_bytes=cfg['all_bytes'] and len(caps[i].states) <= 40)
        ri = P.random_inputs(R, corpus[i], cfg['n_random'])
        if corpus[i].utf8:
            ri = [b for b in ri if P.is_valid_utf8(list(b))]
        allin = sorted(set(gi) | set(ri) | set(P.sequence_inputs(caps[i], corpus[i].utf8)) | {b''})
        if not corpus[i].utf8:
            # byte mode: text that is not well-formed UTF-8 in the places where patterns written for text are at work (round 28) -
            # a character cut short by the end of the input, a stray lead / continuation / impossible byte inside a sample
            base = [b for b in allin if 0 < len(b) <= 24][:: max(1, len(allin) // 40)][:40]
            bad = set()
            for b in base:
                for t in (b'\xc3', b'\xe2', b'\xe2\x82', b'\xf0', b'\xf0\x9f\x98'):
                    bad.add(b + t)
                for x in (b'\xff', b'\x80', b'\xe2', b'\xc0\xaf'):
                    bad.add(b[:1] + x + b[1:])
                    bad.add(b[:len(b) // 2 + 1] + x + b[len(b) // 2 + 1:])
            allin = sorted(set(allin) | bad)
        inputs[i] = allin
        stats[i] = dict(st, n_inputs=len(allin))
    # zoo
    root = Z.write_zoo('zoo-%s' % tier, corpus, accepted, nshards=8)
    builds = Z.build_all(root, cfg['configs'])
    for c, b in builds.items():
        log('lexrun: zoo build %s ok=%s %.1fs' % (c, b['ok'], b['secs']))
    reqs = []
    for i in accepted:
        for b in inputs[i]:
            reqs.append('%d n %s' % (i, P.hexs(b)))
    # partial mode: for a sample of inputs S, every prefix S[..k] (C07)
    preqs = []
    pfx = {}
    for i in accepted:
        Rp = random.Random(seed * 1000 + i)
        cands = [b for b in inputs[i] if 2 <= len(b) <= 24]
        Rp.shuffle(cands)
        chosen = sorted(set(cands[:cfg.get('n_partial', 30)]) | {b for b in inputs[i] if 1 <= len(b) <= 3})
        fam = set()
        for S in chosen:
            for k in range(len(S) + 1):
                pr = S[:k]
                if corpus[i].utf8 and not P.is_valid_utf8(list(pr)):
                    continue
                fam.add(pr)
        pfx[i] = (chosen, sorted(fam))
        for b in sorted(fam):
            preqs.append('%d p %s' % (i, P.hexs(b)))
    # chunked feeding (C07, last clause; model Chunked.feed): schedules of growing buffers over the same sample of inputs - every
    # single cut, every pair of cuts of a short input, one byte at a time, and a few random schedules (repeated cuts included)
    freqs = []
    feeds = {}
    for i in accepted:
        Rf = random.Random(seed * 7919 + i)
        fl = []
        for S in pfx[i][0][:cfg.get('n_feed', 12)]:
            n = len(S)
            ok = [k for k in range(n + 1) if not corpus[i].utf8 or P.is_valid_utf8(list(S[:k]))]
            scheds = [[k] for k in ok]
            if n <= 7:
                scheds += [[a, b_] for a in ok for b_ in ok if a <= b_]
            scheds.append(ok)
            for _ in range(4):
                scheds.append(sorted(Rf.choice(ok) for _ in range(Rf.randint(2, 5))))
            seen = set()
            for sc in scheds:
                t = ','.join(map(str, sc))
                if t not in seen:
                    seen.add(t)
                    fl.append((t, S))
        feeds[i] = fl
        for (t, S) in fl:
            freqs.append('%d f%s %s' % (i, t, P.hexs(S)))
            freqs.append('%d r%s %s' % (i, t, P.hexs(S)))      # the same schedule fed by re-slicing (Reslice.feedR)
    treqs = []
    for i in accepted:
        for b in inputs[i][:: max(1, len(inputs[i]) // 300)]:
            treqs.append('%d t %s' % (i, P.hexs(b)))
    # callback invocations (mode c: the ordinary stream followed by the number of callback calls), definitions with callbacks
    creqs = []
    cin = {}
    for i in accepted:
        # (the library's own logos::skip does not announce itself)
        if any(l.cb for l in corpus[i].leaves) and not any(getattr(l, 'cb_form', 0) == 5 for l in corpus[i].leaves):
            cin[i] = inputs[i][:: max(1, len(inputs[i]) // 120)]
            for b in cin[i]:
                creqs.append('%d c %s' % (i, P.hexs(b)))
    zoo_out = {}
    for c, b in builds.items():
        if not b['ok']:
            zoo_out[c] = None
            continue
        t1 = time.time()
        outs = Z.run_zoo(b['bin'], treqs if 'trace' in c else reqs + preqs + creqs + freqs, nproc=6)
        zoo_out[c] = outs
        log('lexrun: zoo run %s: %d requests %.1fs' % (c, len(outs), time.time() - t1))
    # lean
    lines = []
    for i in accepted:
        lines += P.case_block(str(i), caps[i], corpus[i])
        lines += caps[i].raw
        lines.append('Q CERT')
        lines.append('Q PASSES')
        lines.append('Q FROMDFA')
        lines.append('Q UTF8SEQ')
        lines.append('Q WF')
        for b in inputs[i]:
            lines.append('Q LEX n ' + P.hexs(b))
            lines.append('Q SPEC ' + P.hexs(b))
        for b in pfx[i][1]:
            lines.append('Q LEX p ' + P.hexs(b))
            lines.append('Q PSPEC ' + P.hexs(b))
        for (t, S) in feeds.get(i, []):
            lines.append('Q FEED %s %s' % (t, P.hexs(S)))
            lines.append('Q FEEDR %s %s' % (t, P.hexs(S)))
        for b in inputs[i][:: max(1, len(inputs[i]) // 300)]:
            lines.append('Q LEX t ' + P.hexs(b))
        for b in cin.get(i, []):
            lines.append('Q CALLS ' + P.hexs(b))
            lines.append('Q SPECCALLS ' + P.hexs(b))
    t1 = time.time()
    lean = P.run_lean(lines, nproc=12)
    log('lexrun: lean driver %d answers %.1fs' % (len(lean), time.time() - t1))
    r = dict(key=key, seed=seed, tier=tier, corpus=corpus, srcs=srcs, caps=caps, accepted=accepted, inputs=inputs,
             stats=stats, builds={c: dict(ok=b['ok'], secs=b['secs'], stderr=b['stderr'][-4000:]) for c, b in builds.items()},
             reqs=reqs, preqs=preqs, treqs=treqs, freqs=freqs, feeds=feeds, pfx=pfx, skipped_large=skipped_large, zoo_out=zoo_out, lean=lean, wall=time.time() - t0, cached=False)
    pickle.dump(r, open(cpath, 'wb'))
    os.makedirs(P.WORK, exist_ok=True)
    open(marker, 'w').write(key)
    return r


if __name__ == '__main__':
    seed = int(sys.argv[1]) if len(sys.argv) > 1 else 1
    tier = sys.argv[2] if len(sys.argv) > 2 else 'quick'
    r = lexrun(seed, tier)
    # summary
    lean = r['lean']
    for c, outs in r['zoo_out'].items():
        if outs is None:
            print('config', c, 'BUILD FAILED')
            print(r['builds'][c]['stderr'])
            continue
        mism = 0
        specm = 0
        total = 0
        for ln in outs:
            k, v = ln.split(' : ', 1) if ' : ' in ln else (ln[:-2], '')
            idx, mode, hx = k.split(' ')
            mv = lean.get('%s LEX %s %s' % (idx, mode, hx))
            total += 1
            if mv != v:
                mism += 1
                if mism <= 10:
                    print('MODEL-MISMATCH', c, k, '\n   impl :', v, '\n   model:', mv)
            if mode == 'n' and 'trace' not in c:
                sv = lean.get('%s SPEC %s' % (idx, hx))
                if sv is not None and sv != 'LOOK' and sv != v:
                    specm += 1
                    if specm <= 10:
                        print('SPEC-MISMATCH', c, k, '\n   impl:', v, '\n   spec:', sv)
        print('config', c, 'total', total, 'model mismatches', mism, 'spec mismatches', specm)
    certs = {}
    for i in r['accepted']:
        v = lean.get('%d CERT' % i, '?').split(' ')[0]
        certs[v] = certs.get(v, 0) + 1
        if v not in ('OK', 'OKL', 'LOOK'):
            print('CERT', i, lean.get('%d CERT' % i), r['corpus'][i].origin)
            print(r['srcs'][i])
    print('certs', certs, 'wall %.1f' % r['wall'])
