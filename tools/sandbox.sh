#!/bin/sh
# usage: tools/sandbox.sh <name> <command ...>
# Runs a command in a private copy of /repo and /verif: both are copied under /var/tmp/sb/<name>/ and bind-mounted over
# /repo and /verif in a fresh mount namespace, so the command (a check against a seeded change, a regression run) sees the
# usual paths while the real /repo and /verif stay free for other work.  Development tool only: nothing registered in
# MANIFEST.json uses it.  Remove /var/tmp/sb/<name> when done (tools/sandbox.sh --rm <name>).
if [ "$1" = "--rm" ]; then rm -rf "/var/tmp/sb/$2"; exit 0; fi
NAME="$1"; shift
SB=/var/tmp/sb/$NAME
mkdir -p "$SB/repo" "$SB/verif"
rsync -a --delete --exclude /target /repo/ "$SB/repo/" || exit 2
rsync -a --delete --exclude /replays /verif/ "$SB/verif/" || exit 2
exec unshare -m sh -c 'mount --bind "$0/repo" /repo && mount --bind "$0/verif" /verif && cd /verif && exec "$@"' "$SB" "$@"
