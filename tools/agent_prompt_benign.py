#!/usr/bin/env python3
"""usage: agent_prompt_benign.py <round> <area> <file> [<file> ...]   -- prints the prompt given to a fresh sub-agent for a
behaviour-preserving change (a refactoring a maintainer could merge); the checks must stay quiet on it (tools/try_benign.sh)"""
import sys
rnd, area, files = sys.argv[1], sys.argv[2], sys.argv[3:]
wt = '/tmp/b%s-%s' % (rnd, area)
print(f"""You are helping to test a verification effort for the Rust crate maciejhirsz/logos (a derive-macro lexer generator). Your job is to write ONE behaviour-preserving refactoring of moderate size - the kind of clean-up a maintainer would merge - so that we can see whether our checks raise false alarms on harmless rewrites.

Work ONLY inside the scratch git worktree {wt} (a checkout of the logos repository). Do not read, list or touch /verif or /repo, and do not look at git history or other worktrees under /tmp. The sandbox has no network: always pass --offline to cargo (CARGO_NET_OFFLINE=true). Leave the instrumentation alone: the cargo features `verif_hooks` / `verif_trace`, the files logos-codegen/src/verif.rs and src/verif_trace.rs, and every line guarded by `#[cfg(feature = "verif_hooks")]` / `#[cfg(feature = "verif_trace")]` (keep those lines where they are relative to the code around them: they report intermediate results).

WHAT TO PRODUCE
1. A refactoring of these files: {', '.join(files)} (40-250 changed lines in total). Rewrite HOW things are computed, not WHAT: restructure loops and matches, replace a hand-written loop by iterator adaptors or the other way round, change a data structure to an equivalent one (keeping every iteration ORDER that influences the output), split or merge helper functions, rename locals, reorder independent statements, replace recursion by an explicit stack or the other way round. Be ambitious about the form and strict about the behaviour:
   - for every input the observable behaviour must be exactly the same: the generated code (token for token), every diagnostic (same messages, same number, same order), every span the lexer reports, every panic / non-panic, the output of logos-cli;
   - in particular keep the order in which errors are reported and in which leaves / states / edges are numbered.
2. The whole suite must still pass: `cargo test --workspace --no-fail-fast --offline` in {wt} (172 passed counting doctests; snapshot tests compare generated code exactly, which is a good first test of "same output").
3. Write {wt}/meta.txt: a short name, what you rewrote and where, and why each rewritten piece is behaviour-preserving (one or two sentences per piece; name the invariants you relied on). If you are unsure about a piece, revert that piece. Save the change as {wt}/my_change.diff (`git diff > my_change.diff`) and leave it applied.

Your final answer should be a brief report: short name, files touched, the pieces rewritten, and the suite outcome.""")
