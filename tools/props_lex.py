"""Checks of the properties decided on token streams of compiled lexers (C01, C02, C03, ...)."""
import os, sys, json, re
sys.path.insert(0, os.path.dirname(os.path.abspath(__file__)))
from common import Run, audit, load_theorems, TRUSTED_BASE
import lexrun as LR
import pipeline as P

ITEM = re.compile(r'^(!?)([A-Za-z0-9_]+):(\d+)-(\d+)$')
FINAL = re.compile(r'^\.(\d+)-(\d+)$')


def parse_stream(s):
    """-> (items [(kind 'ok'|'err', name, s, e)], final (s,e) or None, marker or None)"""
    items, final, marker = [], None, None
    for tok in s.split(' '):
        if not tok or tok == '|':
            break
        m = ITEM.match(tok)
        if m and m.group(2) in ('BADSPAN', 'BADSLICE'):
            # the runner's refusal to slice (span outside the source / not on char boundaries / slice differs) has the shape of an item
            marker = tok
            break
        if m:
            items.append(('err' if m.group(1) else 'ok', m.group(2), int(m.group(3)), int(m.group(4))))
            continue
        m = FINAL.match(tok)
        if m:
            final = (int(m.group(1)), int(m.group(2)))
            continue
        marker = tok
        break
    return items, final, marker


def split_line(ln):
    k, v = ln.split(' : ', 1) if ' : ' in ln else (ln.rstrip(' :'), '')
    idx, mode, hx = k.split(' ')
    return int(idx), mode, hx, v



def same_stream(v, mv):
    """implementation stream vs model stream; a lexer that never stops is cut off by the runner after a step budget
    (marker LOOP) and by the model after its fuel (DIVERGE): equal when one item list is a prefix of the other"""
    if v == mv:
        return True
    if v is None or mv is None:
        return False
    if v.endswith('LOOP') and mv.endswith('DIVERGE'):
        a = v[:-4].split()
        b = mv[:-7].split()
        k = min(len(a), len(b))
        return k > 0 and a[:k] == b[:k]
    return False


def first_divergence(impl, spec):
    """index of first differing item, and the spec item there (None if spec has no more items)"""
    ii, si = impl[0], spec[0]
    for j in range(max(len(ii), len(si))):
        a = ii[j] if j < len(ii) else None
        b = si[j] if j < len(si) else None
        if a != b:
            return j, a, b
    if impl[1] != spec[1] or impl[2] != spec[2]:
        return len(ii), ('final', impl[1], impl[2]), ('final', spec[1], spec[2])
    return None


def stage(run, log):
    r = LR.lexrun(run.seed, run.tier, log=log)
    return r


def base_coverage(run, r, au, extra_rule=''):
    lean = r['lean']
    certs = {}
    for i in r['accepted']:
        v = lean.get('%d CERT' % i, '?').split(' ')[0]
        certs[v] = certs.get(v, 0) + 1
    nstates = sum(s['states'] for s in r['stats'].values())
    try:
        import assemble_tie
        run.coverage['leaf_assembly_predicted'] = assemble_tie.tie_corpus(r['corpus'], r['caps'], r['accepted'])
    except Exception as e:   # a predictive tie never decides a property
        run.coverage['leaf_assembly_predicted'] = dict(error=str(e)[:200])
    run.coverage.update(dict(
        obligations=au['obligations'] + certs.get('OK', 0) + certs.get('OKL', 0) + certs.get('FAIL', 0),
        discharged=au['discharged'] + certs.get('OK', 0) + certs.get('OKL', 0),
        theorem_obligations=au['obligations'], theorem_discharged=au['discharged'],
        theorems=au['names'], axioms=au['axioms'],
        validator_runs=sum(certs.values()), validator_ok=certs.get('OK', 0), validator_ok_lookaround=certs.get('OKL', 0),
        validator_lookaround_uncertified=certs.get('LOOK', 0),
        validator_unknown=certs.get('UNKNOWN', 0), validator_fail=certs.get('FAIL', 0),
        checker_cmd=au['checker_cmd'], kernel_recheck=au.get('kernel_recheck'), trusted_base=TRUSTED_BASE,
        graph_passes_predicted=dict(
            same=sum(1 for i in r['accepted'] if lean.get('%d PASSES' % i, '').startswith('SAME')),
            side_conditions_hold=sum(1 for i in r['accepted'] if lean.get('%d PASSES' % i, '').endswith('side=1')),
            differ=[dict(origin=r['corpus'][i].origin, answer=lean.get('%d PASSES' % i, '')[:300]) for i in r['accepted']
                    if lean.get('%d PASSES' % i, '').startswith('DIFF')][:5],
            note='Passes.passes (Lean model of early-accept detection, late-accept removal, dead-end pruning and state de-duplication in Graph::new) applied to the '
                 'hook\'s dump of the graph before the passes, compared state by state with the final graph; a difference alone is not reported (the certificate on the final graph decides)'),
        raw_graph_predicted=dict(
            same=sum(1 for i in r['accepted'] if lean.get('%d FROMDFA' % i, '').startswith('SAME')),
            table_closed=sum(1 for i in r['accepted'] if 'closed=1' in lean.get('%d FROMDFA' % i, '')),
            raw_side_conditions_hold=sum(1 for i in r['accepted'] if lean.get('%d FROMDFA' % i, '').endswith('rawside=1')),
            too_big=sum(1 for i in r['accepted'] if lean.get('%d FROMDFA' % i, '').startswith('BIG')),
            dfa_states=sum(int(lean['%d FROMDFA' % i].split(' ')[1]) for i in r['accepted'] if lean.get('%d FROMDFA' % i, '').startswith('SAME')),
            differ=[dict(origin=r['corpus'][i].origin, answer=lean.get('%d FROMDFA' % i, '')[:300]) for i in r['accepted']
                    if lean.get('%d FROMDFA' % i, '').startswith('DIFF')][:5],
            note='FromDfa.rawOf (Lean model of the first half of Graph::new: get_states, numbering, get_state_type, grouping of the 256 byte successors into byte classes, '
                 'end-of-input edges) applied to the hook\'s dump of regex-automata\'s transition table, compared state by state with the graph the code built before its passes; '
                 'with graph_passes_predicted the final graph is predicted from the DFA table alone; a difference alone is not reported (the certificate on the final graph decides)'),
        utf8_sequences_validated=dict(
            leaves=sum(len(lean.get('%d UTF8SEQ' % i, '').split(' ')) for i in r['accepted'] if lean.get('%d UTF8SEQ' % i)),
            exact=sum(lean.get('%d UTF8SEQ' % i, '').split(' ').count('1') for i in r['accepted']),
            not_exact=[dict(origin=r['corpus'][i].origin, verdicts=lean.get('%d UTF8SEQ' % i, '')) for i in r['accepted'] if '0' in lean.get('%d UTF8SEQ' % i, '').split(' ')][:5],
            note='Utf8Enc.classExactB (proved: classExactB_sound) on every class of every captured leaf: the byte-range sequences regex-syntax lowers a Unicode class to are exactly '
                 'the UTF-8 encodings (enc, written out in Lean) of the scalar values of the class; the meaning of a class then does not rest on Utf8Sequences'),
        definitions=len(r['corpus']), definitions_accepted=len(r['accepted']),
        configs=list(r['zoo_out'].keys()), graph_states=nstates,
        stage_cached=r.get('cached', False), stage_key=r['key'],
    ))


def check_stream_props(prop, tier, seed, log=print):
    """C01 / C02 / C03 share one comparison pass; each reports only its own class of failure."""
    run = Run(prop, tier, seed)
    au = audit(prop, load_theorems(prop))
    for pb in au['problems']:
        run.violation('proof', dict(theorem_audit=pb), no_input=True)
    r = stage(run, log)
    lean = r['lean']
    corpus, srcs, caps = r['corpus'], r['srcs'], r['caps']
    base_coverage(run, r, au)
    evals = 0
    nontrivial = set()
    model_dis = 0
    oracle_fail = 0
    samples = []
    tie_reported = set()
    cert_fail_defs = [i for i in r['accepted'] if lean.get('%d CERT' % i, '').startswith('FAIL')]
    oracle_fail_defs = set()
    for cfgname, outs in r['zoo_out'].items():
        if outs is None:
            run.violation('zoo-build', dict(config=cfgname, stderr=r['builds'][cfgname]['stderr'],
                                            what='an accepted definition does not compile'), no_input=True)
            continue
        for ln in outs:
            idx, mode, hx, v = split_line(ln)
            if mode != 'n':
                continue
            evals += 1
            impl = parse_stream(v)
            mv = lean.get('%d LEX n %s' % (idx, hx))
            sv = lean.get('%d SPEC %s' % (idx, hx))
            if len(impl[0]) >= 2 or any(k == 'err' for k, *_ in impl[0]):
                nontrivial.add((idx, hx))
            if len(samples) < 5 and len(impl[0]) >= 3:
                samples.append(dict(definition=srcs[idx], input_hex=hx, config=cfgname, stream=v))
            rep = dict(definition=srcs[idx], origin=corpus[idx].origin, config=cfgname, input_hex=hx,
                       input_text=bytes.fromhex(hx if hx != '-' else '').decode('utf-8', 'replace'),
                       observed=v, model=mv, expected_by_reference_lexer=sv)
            # --- property oracles, directly on the implementation's output ---
            if prop == 'C03':
                bad = c03_predicate(impl, len(bytes.fromhex(hx if hx != '-' else '')))
                if bad:
                    oracle_fail += 1
                    oracle_fail_defs.add(idx)
                    run.violation('tiling', dict(rep, what=bad), key='%s|%s' % (corpus[idx].origin, hx))
            if sv is not None and sv != 'LOOK':
                spec = parse_stream(sv)
                dv = first_divergence(impl, spec)
                if dv is not None:
                    j, a, b = dv
                    cls = 'C01'
                    if b is not None and b[0] == 'err':
                        cls = 'C02'
                    elif b is not None and b[0] == 'final' and a is not None and a[0] == 'final':
                        cls = 'C03'
                    cls = {cls}
                    if impl[2] in ('HANG', 'LOOP', 'NOTSTICKY'):
                        # a lexer that does not stop (or stops and goes on) is C03's; an error item missing where it stops is C02's too
                        cls = {'C03'} | ({'C02'} if 'C02' in cls and impl[2] == 'NOTSTICKY' else set())
                    if prop in cls:
                        oracle_fail += 1
                        oracle_fail_defs.add(idx)
                        run.violation('oracle', dict(rep, first_divergence=dict(index=j, observed=a, expected=b)),
                                      key='%s|%s' % (corpus[idx].origin, hx))
            # --- tie: implementation vs interpreter model ---
            if not same_stream(v, mv):
                model_dis += 1
                if idx not in tie_reported and idx not in oracle_fail_defs:
                    tie_reported.add(idx)
    # broken ties / obligations without a failing input for this property
    for idx in sorted(tie_reported - oracle_fail_defs):
        run.violation('tie', dict(definition=srcs[idx], origin=corpus[idx].origin,
                                  what='compiled lexer and interpreter model (Lean walk) disagree on some input of this definition; '
                                       'the reference-lexer oracle of this property found no failing input',
                                  correspondence='T-B implementation vs LogosModel.graphLex'), no_input=True,
                      key='tie|%s' % corpus[idx].origin)
    # a failed certificate names a (state, byte): search its neighbourhood for an input on which the
    # implementation and the reference lexer differ
    if cert_fail_defs:
        found = cert_fail_search(run, r, prop, cert_fail_defs, log)
        oracle_fail_defs |= found
    for idx in cert_fail_defs:
        if idx not in oracle_fail_defs:
            run.violation('certificate', dict(definition=srcs[idx], origin=corpus[idx].origin,
                                              verdict=lean.get('%d CERT' % idx),
                                              what='the proved certificate checker (validB; validCB / liveCertB for look-around) rejected the captured graph: theorem lex_eq_spec / lex_eq_specC no longer applies to this definition',
                                              theorem='Logos.lex_eq_spec (hypothesis Valid via validB_sound) / Logos.LK.lex_eq_specC (ValidC via validCB_sound, VExact via liveCertB_sound)'), no_input=True,
                          key='cert|%s' % corpus[idx].origin)
    if prop == 'C03':
        c03_extra(run, r, log)
        c03_trace_pass(run, r, log)
    if prop == 'C01':
        lk = pikevm_pass(run, r, log)
        run.coverage['lookaround_reference'] = lk
        run.coverage['spec_vs_regex_crate'] = regex_crate_pass(run, r, log)
        run.coverage['emitted_code_vs_graph'] = emit_pass(run, r, prop, log)
    run.coverage.update(dict(evaluations=evals, distinct_nontrivial=len(nontrivial),
                             rule='(definition, input) pairs run through compiled lexers in every configuration; inputs are transition-directed '
                                  '(access string of every graph state + probe bytes / EOI, self-loop run lengths 0..17) plus pattern samples and random strings; '
                                  'non-trivial = stream has >= 2 items or an error item; distinct by (definition, input)',
                             samples=samples, model_vs_impl_disagreements=model_dis, impl_vs_oracle_failures=oracle_fail,
                             input_stats={str(k): v for k, v in list(r['stats'].items())[:12]}))
    run.assumptions += ['definitions with look-around assertions are certified by validCB + liveCertB against the contextual reference lexer specLexC (theorems Logos.LK.lex_eq_specC, C01_look_*, C02_look_*); '
                        'when the viability table exceeds its size cap the verdict is LOOK and only the graph-level theorems, the implementation-vs-model tie and the PikeVM reference cover the definition',
                        'quantifier over definitions is sampled (corpus); per validated definition the theorem covers every input']
    return run.finish()


def emit_pass(run, r, prop, log):
    """translation validation of the generator's rendering: the text of the generated code, evaluated on all
    256 byte values per state, against the captured graph (tools/emitcheck.py), for both code generators."""
    import subprocess
    import emitcheck as E
    acc = r['accepted']
    srcs = [r['srcs'][i] for i in acc]
    res = dict(definitions=len(acc), flavours=[], differences=0)
    flav = [('tail-call', os.path.join(P.HARNESS, 'target', 'debug', 'capture'))]
    smb = P.build_capture_sm()
    if smb:
        flav.append(('state-machine', smb))
    # rendering decisions predicted by the Lean model (Emit.planGraph): comparison chains, look-up-table ids and
    # contents, jump tables; theorems planState_fork_sem / planState_loop_sem say the predicted code computes the
    # interpreter's transition function
    pred = {}
    if prop != 'C07':
        pl = []
        for i in acc:
            pl += P.case_block(str(i), r['caps'][i], None) + ['Q EMIT']
        pa = P.run_lean(pl, nproc=8)
        pred = {i: pa.get('%d EMIT' % i) for i in acc}
        res['plans_predicted'] = sum(1 for v in pred.values() if v)
        res['plans_matching_text'] = 0
        res['plan_mismatches'] = []
    for name, binp in flav:
        o = subprocess.run([binp, '--code'], input='\n----\n'.join(srcs) + '\n', capture_output=True, text=True).stdout
        caps2 = P._parse_capture(o, len(srcs))
        res['flavours'].append(name)
        targets = {}
        for k, c in enumerate(caps2):
            i = acc[k]
            if c is None or c.verdict != 'ACCEPT' or c.codetext is None:
                continue
            if pred.get(i):
                pm = E.compare_plan(c.codetext, pred[i])
                if pm is None:
                    res['plans_matching_text'] += 1
                elif len(res['plan_mismatches']) < 10:
                    # not a violation by itself: the static evaluation below decides whether the code still implements the graph
                    res['plan_mismatches'].append(dict(origin=r['corpus'][i].origin, generator=name, difference=pm))
            diffs = E.compare(c.codetext, r['caps'][i])
            # the is_prefix guard only matters to partial lexing: it is judged under C07, everything else under C01
            if prop == 'C07':
                diffs = [d for d in diffs if 'is_prefix guard' in d.get('what', '')]
            else:
                diffs = [d for d in diffs if 'is_prefix guard' not in d.get('what', '')]
            if diffs:
                res['differences'] += 1
                targets[i] = [(d.get('state'), d.get('byte')) for d in diffs if d.get('state') is not None]
                found = set()
                if name == 'tail-call' and prop != 'C07':
                    found = cert_fail_search(run, r, prop, [i], log, targets=targets, why='search around the (state, byte) where the emitted code departs from the graph')
                if i not in found:
                    run.violation('emitted-code', dict(definition=r['srcs'][i], origin=r['corpus'][i].origin, generator=name, differences=diffs[:5],
                                                       what='the generated code does not implement the captured graph (static evaluation of the emitted byte tests / setup / end-of-input code)',
                                                       correspondence='generator rendering vs Graph (tools/emitcheck.py)'), no_input=True,
                                  key='emit|%s|%s' % (name, r['corpus'][i].origin))
    return res


def regex_crate_pass(run, r, log):
    """tie T-C: the Lean semantics of every captured leaf HIR (matchesB on Hir.lower) against the regex crate
    compiling the same pattern text with the same flags, on strings sampled from the pattern, mutated samples and
    random strings. Validates the HIR dump, the UTF-8 lowering and the Lean semantics (testing of the spec)."""
    import subprocess, random as _rnd
    R = _rnd.Random(r['seed'] * 13 + 5)
    corpus, caps = r['corpus'], r['caps']
    reqs, keys, lq = [], [], {}
    for i in r['accepted']:
        d = corpus[i]
        if d.subpatterns:
            continue
        for li, lf in enumerate(d.ordered_leaves()):
            if getattr(lf, 'look', False):
                continue
            if lf.kind == 'token':
                raw = lf.pat if lf.is_bytes else lf.pat.encode('utf-8')
                reqs.append('L %d %d %s' % (0 if lf.is_bytes else 1, 1 if lf.ignore_case else 0, P.hexs(raw)))
            else:
                # the Unicode mode of a pattern is that of its literal: str -> Unicode, byte string -> not
                rawp = lf.pat if isinstance(lf.pat, (bytes, bytearray)) else lf.pat.encode('utf-8')
                if lf.is_bytes:
                    # a byte of a byte-string literal that is not ASCII stands for itself
                    rawp = ''.join(chr(b_) if b_ < 128 else '\\x%02X' % b_ for b_ in rawp).encode('ascii')
                reqs.append('P %d %d %s' % (0 if lf.is_bytes else 1, 1 if lf.ignore_case else 0, P.hexs(rawp)))
            keys.append(None)
            ws = set()
            # strings on which Unicode-aware and ASCII-only readings of \\s, \\d, \\w, ., (?i) and of classes differ
            probes = ['\u2003', '\u00a0', '\u00e9', '\u00df', '\u03a9', '\u041a', '\u0663', '\u212a', '\u017f', '\u4e2d']
            for pc in probes:
                ws.add(pc.encode('utf-8'))
                ws.add(pc.encode('utf-8') * 2)
            if not d.utf8:
                ws.update([b'\x80', b'\xff', b'\xc3', b'a\xff'])
            for _ in range(6):
                try:
                    smp = lf.ast.sample(R) if lf.ast is not None else (lf.pat if isinstance(lf.pat, str) else '')
                except Exception:
                    smp = 'a'
                b = smp.encode('utf-8')
                ws.add(b)
                ws.add(b + '\u2003'.encode('utf-8'))
                ws.add('\u0663'.encode('utf-8') + b)
                if b:
                    k = R.randrange(len(b))
                    ws.add(b[:k] + b[k + 1:])
                    ws.add(b[:k] + bytes([R.choice(b'ab0 zA')]) + b[k:])
                    ws.add(b.swapcase())
            for _ in range(3):
                ws.add(''.join(R.choice(d.alphabet() + ['a', 'b']) for _ in range(R.choice([1, 2, 3]))).encode('utf-8'))
            if d.utf8:
                ws = {w for w in ws if P.is_valid_utf8(list(w))}
            for w in sorted(ws):
                reqs.append('W ' + P.hexs(w))
                keys.append((i, li, w))
                lq.setdefault(i, []).append('MATCH %d %s' % (li, P.hexs(w)))
    if not reqs:
        return dict(comparisons=0)
    binp = os.path.join(P.HARNESS, 'target', 'debug', 'refmatch')
    outs = subprocess.run([binp], input='\n'.join(reqs) + '\n', capture_output=True, text=True).stdout.split('\n')
    lines = []
    for i, qs in lq.items():
        lines += P.case_block(str(i), caps[i], corpus[i])
        lines += ['Q ' + q for q in qs]
    ans = P.run_lean(lines, nproc=8)
    n = bad = matched = 0
    badpat = False
    disagree = []
    for k, o in zip(keys, outs):
        if k is None:
            badpat = (o != 'OK')
            continue
        if badpat or o not in ('0', '1'):
            continue
        i, li, w = k
        mv = ans.get('%d MATCH %d %s' % (i, li, P.hexs(w)))
        if mv not in ('0', '1'):
            continue
        n += 1
        matched += (o == '1')
        if mv != o:
            bad += 1
            disagree.append((i, li, w))
            run.violation('spec-vs-regex-crate', dict(definition=r['srcs'][i], leaf=li, string_hex=P.hexs(w), string_text=w.decode('utf-8', 'replace'),
                                                      regex_crate_matches=o, lean_semantics_of_captured_hir=mv,
                                                      what='the regex crate and the Lean semantics of the HIR logos compiled disagree on this string: either logos compiles a different pattern than written, or the dump/lowering/semantics is wrong',
                                                      correspondence='T-C'), no_input=True, key='tc|%s|%d|%s' % (corpus[i].origin, li, P.hexs(w)))
    # every pattern written in an accepted corpus definition has to be a leaf of the lexer (the reference lexer above works on the
    # leaves the derive built): a missing or extra leaf is reported, and the reference lexer over the patterns as written looks
    # for an input on which it shows
    for i in r['accepted']:
        d = corpus[i]
        nl = len(d.ordered_leaves())
        if len(caps[i].leaves) != nl:
            run.violation('leaf-table', dict(definition=r['srcs'][i], origin=d.origin, patterns_written=nl, leaves_of_the_derive=[list(l) for l in caps[i].leaves],
                                             what='the accepted lexer does not have one leaf per pattern written in the definition'),
                          no_input=True, key='leaftable|' + d.origin)
            if not d.subpatterns:
                for li, lf in enumerate(d.ordered_leaves()):
                    for _ in range(3):
                        try:
                            smp = lf.ast.sample(R) if lf.ast is not None else (lf.pat if isinstance(lf.pat, str) else '')
                        except Exception:
                            smp = 'a'
                        if smp:
                            disagree.append((i, li, smp.encode('utf-8')))
    found = written_reference_search(run, r, disagree, binp, log) if disagree else 0
    # ... and as a standing oracle: on a sample of the short inputs of every definition without callbacks, subpatterns and
    # look-around, the tokens and skips of the compiled lexer against the reference lexer over the patterns as written
    # (independent of the HIRs, priorities aside, and of the leaf table the derive built)
    sample = {}
    for i in r['accepted']:
        ins = [b for b in r['inputs'][i] if 0 < len(b) <= 10]
        if ins:
            step = max(1, len(ins) // (12 if r['tier'] == 'quick' else 60))
            sample[i] = ins[::step]
    st = written_reference_search(run, r, [], binp, log, extra=sample, stats=True)
    return dict(comparisons=n, matching_strings=matched, disagreements=bad, failing_inputs_found=found,
                written_reference_lexer=st)


def written_reference_search(run, r, disagree, refbin, log, extra=None, stats=False):
    """When a leaf as compiled and the pattern as written disagree on a string: run the compiled lexer on inputs built from
    that string and compare with a reference lexer made of the patterns *as written* (regex crate, Unicode mode from the
    literal kind, longest match over all leaves, recorded priorities).  Definitions without callbacks and subpatterns only."""
    import subprocess, zoo as Z
    corpus, caps = r['corpus'], r['caps']
    cfg = next((c for c, o in r['zoo_out'].items() if o and 'trace' not in c), None)
    if cfg is None:
        return 0
    zbin = os.path.join(P.HARNESS, 'target-zoo', 'zoo-%s-%s' % (r['tier'], cfg), 'debug', 'zoo')
    by_def = {}
    for (i, li, w) in disagree:
        d = corpus[i]
        if d.subpatterns or any(l.cb for l in d.leaves) or d.errcb:
            continue
        by_def.setdefault(i, set()).update([w, w + w, b'a ' + w, w + b' a'])
    for i, ins in (extra or {}).items():
        d = corpus[i]
        if d.subpatterns or any(l.cb for l in d.leaves) or d.errcb:
            continue
        by_def.setdefault(i, set()).update(ins)
    found = 0
    ndefs = ninputs = 0
    for i, cands in by_def.items():
        d = corpus[i]
        leaves = d.ordered_leaves()
        cands = sorted(c for c in cands if len(c) <= 16 and (not d.utf8 or P.is_valid_utf8(list(c))))[:(12 if not extra else 80)]
        if not cands or any(getattr(lf, 'look', False) for lf in leaves) or len(caps[i].leaves) != len(leaves):
            continue
        # patterns with look-around assertions cannot be judged on a substring in isolation (`$` would hold at its end)
        if any(re.search(r'\$|\^|\\[bBAzZ<>]|\(\?[a-zA-Z-]*m', (lf.pat if isinstance(lf.pat, str) else lf.pat.decode('latin-1'))) for lf in leaves if lf.kind != 'token'):
            continue
        ndefs += 1
        ninputs += len(cands)
        # every substring of every candidate against every leaf as written
        reqs, idxs = [], []
        for li, lf in enumerate(leaves):
            if lf.kind == 'token':
                raw = lf.pat if lf.is_bytes else lf.pat.encode('utf-8')
                reqs.append('L %d %d %s' % (0 if lf.is_bytes else 1, 1 if lf.ignore_case else 0, P.hexs(raw)))
            else:
                rawp = lf.pat if isinstance(lf.pat, (bytes, bytearray)) else lf.pat.encode('utf-8')
                if lf.is_bytes:
                    rawp = ''.join(chr(b_) if b_ < 128 else '\\x%02X' % b_ for b_ in rawp).encode('ascii')
                reqs.append('P %d %d %s' % (0 if lf.is_bytes else 1, 1 if lf.ignore_case else 0, P.hexs(rawp)))
            idxs.append(None)
            for c in cands:
                for a in range(len(c)):
                    for b in range(a + 1, len(c) + 1):
                        reqs.append('W ' + P.hexs(c[a:b]))
                        idxs.append((li, c, a, b))
        outs = subprocess.run([refbin], input='\n'.join(reqs) + '\n', capture_output=True, text=True).stdout.split('\n')
        m = {k: o for k, o in zip(idxs, outs) if k is not None}
        zouts = Z.run_zoo(zbin, ['%d n %s' % (i, P.hexs(c)) for c in cands], nproc=1)
        cap = caps[i]
        for ln in zouts:
            idx, mode, hx, v = split_line(ln)
            c = bytes.fromhex(hx if hx != '-' else '')
            items, final, marker = parse_stream(v)
            if marker:
                continue
            obs = list(items)
            pos, ok, why = 0, True, None
            while pos < len(c) and ok:
                best = None
                for li in range(len(leaves)):
                    for b in range(len(c), pos, -1):
                        if m.get((li, c, pos, b)) == '1':
                            pr = cap.leaves[li][0]
                            if best is None or b > best[1] or (b == best[1] and pr > best[2]):
                                best = (li, b, pr)
                            break
                nxt = obs[0] if obs else None
                if best is None:
                    if nxt is None or nxt[0] != 'err' or nxt[2] != pos:
                        ok, why = False, 'no pattern as written matches at %d, the lexer yields %s' % (pos, nxt)
                    else:
                        pos = max(nxt[3], pos + 1)
                        obs.pop(0)
                    continue
                li, b, pr = best
                if cap.leaves[li][1] == 0:       # a skip: no item, the next item starts at or after b
                    if nxt is not None and nxt[2] < b:
                        ok, why = False, 'the skip pattern %d as written matches %d..%d, the lexer yields %s there' % (li, pos, b, nxt)
                    pos = b
                    continue
                want = (cap.leaves[li][3], pos, b)
                if nxt is None or nxt[0] != 'ok' or (nxt[1], nxt[2], nxt[3]) != want:
                    ok, why = False, 'the patterns as written give %s:%d-%d (longest match, top priority), the lexer yields %s' % (want + (nxt,))
                else:
                    obs.pop(0)
                    pos = b
            if not ok:
                found += 1
                run.violation('oracle', rep_of(r, i, cfg, 'n', hx, observed=v, what=why, found_by='reference lexer over the patterns as written (regex crate), started by a spec-vs-regex-crate disagreement'),
                              key='written|%s|%s' % (corpus[i].origin, hx))
    if stats:
        return dict(definitions=ndefs, inputs=ninputs, failing=found)
    return found


def pikevm_pass(run, r, log):
    """definitions with look-around: compare the Ok items (and callback-made errors) of the compiled
    lexer with a reference lexer built on regex-automata's PikeVM from the captured HIR. The reference
    does not decide where a no-match error ends; it resumes where the implementation resumed."""
    import subprocess
    lean = r['lean']
    look = [i for i in r['accepted'] if lean.get('%d CERT' % i, '').split(' ')[0] in ('LOOK', 'OKL')]
    cfg = 'tail' if r['zoo_out'].get('tail') else next((c for c, o in r['zoo_out'].items() if o), None)
    st = streams_of(r, cfg) if cfg else None
    if not look or st is None:
        return dict(definitions=0)
    cap_n = 500 if r['tier'] == 'quick' else 5000
    lines = []
    asked = []
    written = set()
    for i in look:
        blk = P.case_block(str(i), r['caps'][i], r['corpus'][i])
        lines += blk
        # the same reference with every leaf rebuilt from the pattern as written (no subpatterns: the text of the leaf is the pattern)
        d = r['corpus'][i]
        leaves = d.ordered_leaves()
        wblk = None
        if not d.subpatterns and len(leaves) == len(r['caps'][i].leaves):
            wblk = ['CASE %dw' % i] + blk[1:]
            for li, lf in enumerate(leaves):
                raw = lf.pat if isinstance(lf.pat, (bytes, bytearray)) else lf.pat.encode('utf-8')
                if lf.kind != 'token' and lf.is_bytes:
                    raw = ''.join(chr(b_) if b_ < 128 else '\\x%02X' % b_ for b_ in raw).encode('ascii')
                wblk.append('WSRC %d %d %d %d %s' % (li, 0 if lf.is_bytes else 1, 1 if lf.ignore_case else 0, 1 if lf.kind == 'token' else 0, P.hexs(raw)))
            written.add(i)
        qs = []
        ins = [b for b in r['inputs'][i] if len(b) <= 24]
        step = max(1, len(ins) // cap_n)
        for b in ins[::step]:
            hx = P.hexs(b)
            v = st.get((i, 'n', hx))
            if v is None:
                continue
            items, final, marker = parse_stream(v)
            if marker:
                continue
            resume = ','.join('%d>%d' % (a, e) for (k, nm, a, e) in items if k == 'err' and nm in ('d',) or (k == 'err' and nm.startswith('b')))
            lines.append('Q REF %s %s' % (hx, resume or '-'))
            qs.append(lines[-1])
            asked.append((i, hx, v))
        if wblk is not None:
            lines += wblk + qs
    binp = os.path.join(P.HARNESS, 'target', 'debug', 'reflex')
    pr = subprocess.run([binp], input='\n'.join(lines) + '\n', capture_output=True, text=True)
    ref = {}
    for ln in pr.stdout.split('\n'):
        if ' : ' in ln:
            k, v = ln.split(' : ', 1)
            t = k.split(' ')
            ref[(t[0], t[2])] = v
    bad = 0
    nwritten = 0
    for (i, hx, v, which) in [(i, hx, v, w) for (i, hx, v) in asked for w in ('', 'w') if w == '' or i in written]:
        rv = ref.get((str(i) + which, hx))
        if which == 'w' and rv is not None and 'BADPATTERN' not in rv:
            nwritten += 1
        if rv is not None and 'BADPATTERN' in rv:
            continue
        if rv is None or 'NORESUME' in rv or 'REFLOOP' in rv:
            # the implementation produced a token where the reference expected an error (or vice versa): compare below
            pass
        if rv is None:
            continue
        impl_items = [t for t in v.split(' ') if t and not t.startswith('.')]
        ref_items = [t for t in rv.split(' ') if t and not t.startswith('.') and t not in ('NORESUME', 'REFLOOP')]
        ok = True
        if len(impl_items) != len(ref_items) and 'NORESUME' not in rv:
            ok = False
        for a, b in zip(impl_items, ref_items):
            if b.startswith('!?:'):
                # reference: no pattern matches a non-empty prefix here -> implementation must have a default error starting there
                pstart = b[3:].rstrip('-')
                if not (a.startswith('!') and not a.startswith('!c') and a.split(':')[1].split('-')[0] == pstart):
                    ok = False
                    break
            elif a != b:
                ok = False
                break
        if 'NORESUME' in rv and ok:
            ok = False
        if not ok:
            bad += 1
            run.violation('oracle-lookaround', rep_of(r, i, cfg, 'n', hx, observed=v, expected_by_pikevm_reference=rv,
                                                      reference_built_from='the patterns as written' if which else 'the captured HIR',
                                                      what='items differ from the PikeVM reference lexer (longest match / priority on a definition with look-around assertions)'),
                          key='pike%s|%s|%s' % (which, r['corpus'][i].origin, hx))
    return dict(definitions=len(look), comparisons=len(asked), failures=bad, definitions_also_from_patterns_as_written=len(written),
                comparisons_from_patterns_as_written=nwritten)


def cert_fail_search(run, r, prop, defs_, log, targets=None, why='search around the failed certificate'):
    """defs_: definition indices; targets: optional {idx: [(state, byte)]} (default: parsed from the CERT verdict)"""
    import zoo as Z
    lean = r['lean']
    found = set()
    cfg = next((c for c, o in r['zoo_out'].items() if o and 'trace' not in c), None)
    if cfg is None:
        return found
    binp = os.path.join(P.HARNESS, 'target-zoo', 'zoo-%s-%s' % (r['tier'], cfg), 'debug', 'zoo')
    reqs, lines = [], []
    for idx in defs_:
        v = lean.get('%d CERT' % idx, '')
        m = re.search(r'state=(\d+).*badbyte=\(some (\d+)\)', v)
        cap = r['caps'][idx]
        acc = P.access_strings(cap)
        cands = set()
        tg = list(targets.get(idx, [])) if targets else ([(int(m.group(1)), int(m.group(2)))] if m else [])
        for (ts, tb) in tg:
            if ts not in acc:
                continue
            base = acc[ts] + ([tb] if tb is not None else [])
            tails = [[]] + [[b] for b in P.PROBES] + [[0x61, 0x61], [0x40], [0x7a, 0x30], [0x61, 0x62, 0x63]]
            for t in tails:
                cands.add(bytes(base + t))
            if tb is not None:
                for s_, a in acc.items():
                    cands.add(bytes(a + [tb]))
                    cands.add(bytes(a + [tb, 0x61]))
        # complete each candidate to a full match with the reference semantics (shortest extension)
        cl = P.case_block(str(idx), cap, r['corpus'][idx]) + ['Q COMPLETE ' + P.hexs(c) for c in sorted(cands)]
        comp = P.run_lean(cl, nproc=1)
        for c in sorted(cands):
            w = comp.get('%d COMPLETE %s' % (idx, P.hexs(c)), 'NONE')
            if w not in ('NONE', ''):
                ext = bytes.fromhex(w) if w != '-' else b''
                cands = cands | {c + ext, c + ext + b'a'}
        if r['corpus'][idx].utf8:
            cands = {c for c in cands if P.is_valid_utf8(list(c))}
        lines += P.case_block(str(idx), cap, r['corpus'][idx])
        for c in sorted(cands):
            reqs.append('%d n %s' % (idx, P.hexs(c)))
            lines.append('Q SPEC ' + P.hexs(c))
    if not reqs:
        return found
    outs = Z.run_zoo(binp, reqs, nproc=2)
    spec = P.run_lean(lines, nproc=4)
    for ln in outs:
        idx, mode, hx, v = split_line(ln)
        sv = spec.get('%d SPEC %s' % (idx, hx))
        if sv is None or sv == 'LOOK' or sv == v:
            continue
        dv = first_divergence(parse_stream(v), parse_stream(sv))
        if dv is None:
            continue
        j, a, b = dv
        cls = 'C02' if (b is not None and b[0] == 'err') else ('C03' if (b is not None and b[0] == 'final' and a is not None and a[0] == 'final') else 'C01')
        if cls == prop:
            found.add(idx)
            run.violation('oracle', rep_of(r, idx, cfg, 'n', hx, observed=v, expected_by_reference_lexer=sv, found_by=why,
                                           first_divergence=dict(index=j, observed=a, expected=b)), key='%s|%s' % (r['corpus'][idx].origin, hx))
    return found


def c03_predicate(impl, n):
    items, final, marker = impl
    if marker is not None:
        return 'marker ' + marker
    pos = 0
    for (k, name, s, e) in items:
        if not (s < e):
            return 'empty item %s:%d-%d' % (name, s, e)
        if s < pos:
            return 'overlapping item at %d' % s
        if e > n:
            return 'item beyond input'
        pos = e
    if final is None:
        return 'no final None'
    if final != (n, n):
        return 'final span %s != input length %d' % (final, n)
    return None


def c03_trace_predicate(items, evs, n):
    """'the gaps between the items are exactly the skipped regions', on the real event trace: every call of next starts
    where the previous item ended (the first one at 0), and an item starts where its call started or where the last
    trivia() call of that call left the start; a region not covered by an item is therefore covered by trivia() calls"""
    calls = []
    for e in evs:
        if e[0] == 'N':
            calls.append([e[1], []])
        elif e[0] == 'T' and calls:
            calls[-1][1].append(e[1])
    if not calls:
        return None
    if calls[0][0] != 0:
        return 'the first call of next starts at %d, not at 0: bytes 0..%d are neither an item nor skipped' % (calls[0][0], calls[0][0])
    prev_end = 0
    for k, (start, trivia) in enumerate(calls):
        if start != prev_end:
            return 'call %d of next starts at %d, the previous item ended at %d' % (k, start, prev_end)
        cur = start
        for q in trivia:
            if q < cur or q > n:
                return 'trivia() moved the start from %d to %d' % (cur, q)
            cur = q
        if k < len(items):
            (_, name, s_, e_) = items[k]
            if s_ != cur:
                return 'item %s starts at %d; its call started at %d and trivia() calls account for bytes up to %d' % (name, s_, start, cur)
            prev_end = e_
        else:
            break
    return None


def c03_trace_pass(run, r, log):
    n = bad = 0
    for cfgname, outs in r['zoo_out'].items():
        if 'trace' not in cfgname or outs is None:
            continue
        for ln in outs:
            idx, mode, hx, v = split_line(ln)
            if mode != 't':
                continue
            evs = parse_trace(v)
            if evs is None:
                continue
            impl = parse_stream(v)
            if impl[2] is not None:
                continue
            n += 1
            why = c03_trace_predicate(impl[0], evs, len(bytes.fromhex(hx if hx != '-' else '')))
            if why:
                bad += 1
                run.violation('gap-not-skipped', rep_of(r, idx, cfgname, mode, hx, observed=v, what=why), key='gap|%s|%s' % (r['corpus'][idx].origin, hx))
    run.coverage['gaps_accounted_by_trivia_calls'] = dict(traces=n, failures=bad,
        what='real event traces (verif_trace): every next() starts at the previous item end (the first at 0) and every item starts where the trivia() calls of its next() left off')


def c03_extra(run, r, log):
    """every definition with a nullable leaf must be rejected; EmptyMatch diagnostics name only nullable leaves"""
    lean_lines = []
    idxs = []
    for i, c in enumerate(r['caps']):
        if c is not None and not c.nodump:
            lean_lines += P.case_block(str(i), c, None)
            lean_lines.append('Q NULLABLE')
            idxs.append(i)
    ans = P.run_lean(lean_lines, nproc=4)
    bad = 0
    checked = 0
    for i in idxs:
        c = r['caps'][i]
        v = ans.get('%d NULLABLE' % i, '')
        flags = v.split(' ') if v else []
        if not flags or 'L' in flags:
            continue
        checked += 1
        has_null = '1' in flags
        if has_null and c.verdict == 'ACCEPT':
            bad += 1
            run.violation('nullable-accepted', dict(definition=r['srcs'][i], nullable_leaves=flags,
                                                    what='a pattern can match the empty string but the derive accepted the definition'),
                          key='nullable|%s' % r['corpus'][i].origin)
        empties = sorted(g[1] for g in c.gerrs if g and g[0] == 1)
        for l in empties:
            if l < len(flags) and flags[l] != '1':
                bad += 1
                run.violation('emptymatch-wrong-leaf', dict(definition=r['srcs'][i], leaf=l, nullable_leaves=flags),
                              key='emptyleaf|%s' % r['corpus'][i].origin)
    run.coverage['nullable_decisions_checked'] = checked


# ---------------------------------------------------------------------------------------------
# helpers shared by the configuration / trace / partial checks
# ---------------------------------------------------------------------------------------------

def streams_of(r, cfgname):
    outs = r['zoo_out'].get(cfgname)
    if outs is None:
        return None
    d = {}
    for ln in outs:
        idx, mode, hx, v = split_line(ln)
        d[(idx, mode, hx)] = v
    return d


def setup_run(prop, tier, seed, log=print):
    run = Run(prop, tier, seed)
    au = audit(prop, load_theorems(prop))
    for pb in au['problems']:
        run.violation('proof', dict(theorem_audit=pb), no_input=True)
    r = stage(run, log)
    base_coverage(run, r, au)
    for cfgname, outs in r['zoo_out'].items():
        if outs is None:
            run.violation('zoo-build', dict(config=cfgname, stderr=r['builds'][cfgname]['stderr'],
                                            what='an accepted definition does not compile'), no_input=True)
    return run, r


def rep_of(r, idx, cfgname, mode, hx, **kw):
    d = dict(definition=r['srcs'][idx], origin=r['corpus'][idx].origin, config=cfgname, mode=mode, input_hex=hx,
             input_text=bytes.fromhex(hx if hx != '-' else '').decode('utf-8', 'replace'))
    d.update(kw)
    return d


def tie_pass(run, r, modes=('n', 'p'), configs=None):
    """implementation vs interpreter model on all streams; returns (#compared, #disagreements, defs)"""
    lean = r['lean']
    n = dis = 0
    bad_defs = {}
    for cfgname, outs in r['zoo_out'].items():
        if outs is None or (configs is not None and cfgname not in configs):
            continue
        for ln in outs:
            idx, mode, hx, v = split_line(ln)
            if mode not in modes:
                continue
            mv = lean.get('%d LEX %s %s' % (idx, mode, hx))
            n += 1
            if not same_stream(v, mv):
                dis += 1
                bad_defs.setdefault(idx, (cfgname, mode, hx, v, mv))
    return n, dis, bad_defs


def report_tie(run, r, bad_defs, covered=()):
    for idx, (cfgname, mode, hx, v, mv) in sorted(bad_defs.items()):
        if idx in covered:
            continue
        run.violation('tie', rep_of(r, idx, cfgname, mode, hx, observed=v, model=mv,
                                    what='compiled lexer and Lean interpreter model disagree; this property\'s oracle found no failing input',
                                    correspondence='T-B/T-E implementation vs LogosModel (graphLex / interpLex)'),
                      no_input=True, key='tie|%s' % r['corpus'][idx].origin)


# ---------------------------------------------------------------------------------------------
# C04
# ---------------------------------------------------------------------------------------------

def check_c04(tier, seed, log=print):
    run, r = setup_run('C04', tier, seed, log)
    corpus = r['corpus']
    evals = 0
    nontriv = set()
    samples = []
    bad = set()
    for cfgname, outs in r['zoo_out'].items():
        if outs is None:
            continue
        for ln in outs:
            idx, mode, hx, v = split_line(ln)
            if not corpus[idx].utf8:
                continue
            evals += 1
            raw = bytes.fromhex(hx if hx != '-' else '')
            if any(b >= 128 for b in raw):
                nontriv.add((idx, hx))
                if len(samples) < 4:
                    samples.append(dict(definition=r['srcs'][idx], input_hex=hx, stream=v))
            items, final, marker = parse_stream(v)
            msg = None
            if marker in ('BADSPAN', 'BADSLICE', 'PANIC') or (marker or '').startswith(('BADSPAN', 'BADSLICE')):
                msg = 'marker %s' % marker
            else:
                s = raw.decode('utf-8', 'strict')
                bounds = set()
                acc = 0
                bounds.add(0)
                for ch in s:
                    acc += len(ch.encode('utf-8'))
                    bounds.add(acc)
                for (k, nm, a, b) in items:
                    if a not in bounds or b not in bounds:
                        msg = 'item %s:%d-%d off a char boundary' % (nm, a, b)
                        break
                if msg is None and final is not None and (final[0] not in bounds or final[1] not in bounds):
                    msg = 'final span off a char boundary'
            if msg:
                bad.add(idx)
                run.violation('boundary', rep_of(r, idx, cfgname, mode, hx, observed=v, what=msg),
                              key='%s|%s' % (corpus[idx].origin, hx))
    # per-leaf UTF-8 closure of every accepted str-mode definition; rejected ones must have a reason
    lines = []
    ids = []
    for i, c in enumerate(r['caps']):
        if c is not None and not c.nodump and corpus[i].utf8:
            lines += P.case_block(str(i), c, None)
            lines.append('Q UTF8CLOSED')
            ids.append(i)
    ans = P.run_lean(lines, nproc=8)
    closed = unknown = 0
    for i in ids:
        c = r['caps'][i]
        flags = ans.get('%d UTF8CLOSED' % i, '').split(' ')
        for li, f in enumerate(flags):
            if f == '1':
                closed += 1
            elif f in ('U', 'L'):
                unknown += 1
            elif f == '0' and c.verdict == 'ACCEPT':
                run.violation('nonutf8-accepted', dict(definition=r['srcs'][i], leaf=li,
                                                       what='str-mode definition accepted although the Lean closure check finds the pattern can match invalid UTF-8 '
                                                            '(utf8ClosedB failed with a complete search)'),
                              key='nonutf8|%s|%d' % (corpus[i].origin, li))
            elif f == '0' and 'nonutf8' not in c.err_classes():
                pass  # rejected for another reason
    # the acceptance side, position by position: a str-mode definition with a pattern that can match invalid UTF-8 in a
    # #[regex], #[token], skip (three spellings) or subpattern must be rejected; harmless byte-string patterns accepted
    import families as F
    fam = F.fam_c04()
    fcaps = P.run_capture([c['src'] for c in fam])
    flines = []
    for k, c in enumerate(fcaps):
        if c is not None and not c.nodump:
            flines += P.case_block('f%d' % k, c, None) + ['Q UTF8CLOSED']
    fans = P.run_lean(flines, nproc=4) if flines else {}
    fam_stats = dict(cases=len(fam), rejected=0, accepted=0)
    for k, (cse, c) in enumerate(zip(fam, fcaps)):
        if c is None:
            continue
        fam_stats['accepted' if c.verdict == 'ACCEPT' else 'rejected'] += 1
        flags = fans.get('f%d UTF8CLOSED' % k, '').split(' ') if not c.nodump else []
        if c.verdict == 'ACCEPT' and '0' in flags:
            run.violation('nonutf8-accepted', dict(definition=cse['src'], family=cse['family'], leaf=flags.index('0'),
                                                   what='str-mode definition accepted although one of its patterns can match invalid UTF-8 (utf8ClosedB failed with a complete search): '
                                                        'spans_on_boundaries no longer applies, the lexer can produce spans inside a code point'),
                          key='nonutf8fam|%s' % cse['src'])
        elif c.verdict == 'ACCEPT' and not cse['meta']['closed']:
            # the offending pattern is not a leaf (a subpattern nothing refers to, or one whose uses are valid UTF-8 as a whole):
            # the family wrote it to match invalid UTF-8, the property asks for a rejection on the subpattern's own account
            run.violation('nonutf8-accepted', dict(definition=cse['src'], family=cse['family'],
                                                   what='str-mode definition accepted although one of its patterns or subpatterns (written by the family to match bytes that are not valid UTF-8) '
                                                        'can match invalid UTF-8'),
                          key='nonutf8fam|%s' % cse['src'])
        elif c.verdict != 'ACCEPT' and cse['meta']['closed']:
            run.violation('utf8-rejected', dict(definition=cse['src'], family=cse['family'], errors=c.errs[:2],
                                                what='a str-mode definition whose byte-string patterns only match valid UTF-8 was rejected'),
                          key='utf8rej|%s' % cse['src'])
    run.coverage['acceptance_family'] = fam_stats
    from props_lib import bump_boundary_probe
    run.coverage['spans_after_bump'] = bump_boundary_probe(run, tier, log)
    n, dis, bad_defs = tie_pass(run, r)
    report_tie(run, r, {k: v for k, v in bad_defs.items() if corpus[k].utf8}, covered=bad)
    run.coverage.update(dict(evaluations=evals, distinct_nontrivial=len(nontriv),
                             rule='every stream printed by the compiled str-mode lexers (all configurations, ordinary and partial mode); the runner checks span()/slice()/remainder() '
                                  'against is_char_boundary before slicing; non-trivial = input contains a multi-byte character; plus utf8ClosedB on every leaf HIR',
                             samples=samples, leaves_proved_utf8_closed=closed, leaves_unknown=unknown,
                             model_vs_impl_disagreements=dis, impl_vs_oracle_failures=len(bad)))
    run.assumptions += ['callbacks that bump are outside spans_on_boundaries (NoBump); bump itself is C15',
                        'look-around leaves: closure decided by the contextual check utf8ClosedCB (sound, not complete: viability of a derivative is over-approximated, an undecided leaf counts as unknown and is covered by the runner-side boundary predicate only); spans_on_boundariesC']
    return run.finish()


# ---------------------------------------------------------------------------------------------
# C05 / C06: configuration equality
# ---------------------------------------------------------------------------------------------

def config_equal(run, r, pairs, prop):
    fails = set()
    n = 0
    for a, b in pairs:
        sa, sb = streams_of(r, a), streams_of(r, b)
        if sa is None or sb is None:
            continue
        for k, v in sa.items():
            n += 1
            if sb.get(k) != v:
                idx, mode, hx = k
                fails.add(idx)
                run.violation('config-diff', rep_of(r, idx, a + ' vs ' + b, mode, hx, observed_a=v, observed_b=sb.get(k),
                                                    what='the two builds produce different results on this input'),
                              key='%s|%s|%s' % (r['corpus'][idx].origin, mode, hx))
    return n, fails


TRACE_EV = re.compile(r'^([NRTEB])(\d+)(?:/(\d+)([+-])|>(\d+))?$')


def parse_trace(v):
    if ' |' not in v:
        return None
    tr = v.split(' |', 1)[1].split()
    evs = []
    for t in tr:
        m = TRACE_EV.match(t)
        if not m:
            return None
        k = m.group(1)
        if k == 'R':
            evs.append(('R', int(m.group(2)), int(m.group(3)), m.group(4) == '+'))
        elif k == 'B':
            evs.append(('B', int(m.group(2)), int(m.group(5))))
        else:
            evs.append((k, int(m.group(2))))
    return evs


def check_c05(tier, seed, log=print):
    run, r = setup_run('C05', tier, seed, log)
    cfgs = list(r['zoo_out'].keys())
    pairs = [(a, b) for a, b in (('tail', 'tail_safe'), ('sm', 'sm_safe')) if a in cfgs and b in cfgs]
    n, fails = config_equal(run, r, pairs, 'C05')
    # forbid_unsafe builds must never panic
    for cfgname in cfgs:
        if 'safe' not in cfgname or r['zoo_out'][cfgname] is None:
            continue
        for ln in r['zoo_out'][cfgname]:
            idx, mode, hx, v = split_line(ln)
            if 'PANIC' in v:
                fails.add(idx)
                run.violation('safe-panic', rep_of(r, idx, cfgname, mode, hx, observed=v, what='forbid_unsafe build panicked'),
                              key='panic|%s|%s' % (r['corpus'][idx].origin, hx))
    # spans inside the source, on every stream of every configuration (the runner prints BADSPAN instead of slicing
    # when span() is not inside the source)
    for cfgname in cfgs:
        if r['zoo_out'][cfgname] is None or 'trace' in cfgname:
            continue
        for ln in r['zoo_out'][cfgname]:
            idx, mode, hx, v = split_line(ln)
            ln_ = len(bytes.fromhex(hx if hx != '-' else ''))
            items, final, marker = parse_stream(v)
            msg = None
            if (marker or '').startswith(('BADSPAN', 'BADSLICE')):
                msg = 'span() outside the source or inside a code point (slice() / remainder() would read out of bounds, or panic in the forbid_unsafe build): %s (source length %d)' % (marker, ln_)
            else:
                for (k, nm, a, b) in items:
                    if b > ln_ or a > b:
                        msg = 'item %s:%d-%d outside a source of length %d' % (nm, a, b, ln_)
                        break
            if msg:
                fails.add(idx)
                run.violation('bounds', rep_of(r, idx, cfgname, mode, hx, observed=v, what=msg),
                              key='bounds|%s|%s' % (r['corpus'][idx].origin, hx))
    # every request is run twice, the source followed in memory by two different tails (zoo_rt::with_tails): an answer that
    # depends on the bytes behind the source was computed from a read outside it
    for cfgname in cfgs:
        if 'trace' in cfgname or r['zoo_out'][cfgname] is None:
            continue
        for ln in r['zoo_out'][cfgname]:
            if 'TAILDEPENDENT' in ln:
                idx, mode, hx, v = split_line(ln)
                fails.add(idx)
                run.violation('over-read', rep_of(r, idx, cfgname, mode, hx, observed=v,
                                                  what='the result depends on the bytes that follow the source in memory (the same input, as a prefix of two allocations with different tails, lexes differently): a read outside the source slice'),
                              key='overread|%s|%s' % (r['corpus'][idx].origin, hx))
    # oracle on the real read trace: hit iff inside; recorded ends inside the source
    tn = 0
    nontriv = set()
    samples = []
    for cfgname in cfgs:
        if 'trace' not in cfgname or r['zoo_out'][cfgname] is None:
            continue
        for ln in r['zoo_out'][cfgname]:
            idx, mode, hx, v = split_line(ln)
            evs = parse_trace(v)
            ln_ = len(bytes.fromhex(hx if hx != '-' else ''))
            tn += 1
            if evs is None:
                run.violation('trace-parse', rep_of(r, idx, cfgname, mode, hx, observed=v), no_input=True)
                continue
            if ln_ % 8 in (0, 1, 7) or ln_ < 8:
                nontriv.add((idx, hx))
            if len(samples) < 4 and ln_ >= 8:
                samples.append(dict(definition=r['srcs'][idx], input_hex=hx, trace=v))
            for e in evs:
                msg = None
                if e[0] == 'R' and e[3] != (e[1] + e[2] <= ln_):
                    msg = 'read at %d size %d %s for a source of length %d' % (e[1], e[2], 'hit' if e[3] else 'missed', ln_)
                elif e[0] == 'E' and e[1] > ln_:
                    msg = 'token end %d recorded beyond source length %d' % (e[1], ln_)
                elif e[0] == 'B' and e[2] > ln_:
                    msg = 'error end %d beyond source length %d' % (e[2], ln_)
                if msg:
                    fails.add(idx)
                    run.violation('bounds', rep_of(r, idx, cfgname, mode, hx, observed=v, what=msg),
                                  key='bounds|%s|%s' % (r['corpus'][idx].origin, hx))
                    break
    nt, dis, bad_defs = tie_pass(run, r, modes=('n', 'p', 't'))
    report_tie(run, r, bad_defs, covered=fails)
    # the property speaks of accepted definitions: a str-mode definition with a pattern (token, regex, skip in every spelling,
    # subpattern) written to match bytes that are not valid UTF-8 must be refused - accepted, its lexer slices the source off a
    # char boundary (out of bounds in the default build, a panic in the forbid_unsafe build)
    import families as F
    fam = [c for c in F.fam_c04() if not c['meta']['closed']]
    fcaps = P.run_capture([c['src'] for c in fam])
    refused = 0
    for c, cap in zip(fam, fcaps):
        if cap is None:
            continue
        if cap.verdict == 'ACCEPT':
            run.violation('nonutf8-accepted', dict(definition=c['src'], family=c['family'],
                                                   what='a str-mode definition whose pattern can match bytes that are not valid UTF-8 is accepted: its spans can leave the char boundaries of the source'),
                          key='c05acc|' + c['src'])
        else:
            refused += 1
    run.coverage['non_utf8_patterns_refused_in_str_mode'] = dict(cases=len(fam), refused=refused)
    from props_lib import source_read_differential, bump_bounds_probe
    sr = source_read_differential(run, tier, seed, log)
    run.coverage['spans_after_bump'] = bump_bounds_probe(run, tier, log)
    run.coverage.update(dict(evaluations=n + tn + sr.get('evaluations', 0), distinct_nontrivial=len(nontriv) + sr.get('distinct_nontrivial', 0),
                             rule='streams of default vs forbid_unsafe builds compared on every request (inputs are prefixes of a longer allocation whose tail repeats the input, so an over-read changes the result); '
                                  'real read traces (verif_trace) checked: a read hits iff offset+size <= len; non-trivial = input length < 8 or within 1 of a multiple of 8; '
                                  'direct Source::read differential over chunk sizes 1..32 and offsets around len and usize::MAX, in debug and release, both feature sets',
                             samples=samples, trace_lines=tn, source_read=sr,
                             model_vs_impl_disagreements=dis, impl_vs_oracle_failures=len(fails)))
    run.assumptions += ['raw pointer arithmetic itself is modelled by its guard (checked_add + <= len), not verified; Miri is supporting evidence in the thorough tier only']
    return run.finish()


def check_c06(tier, seed, log=print):
    run, r = setup_run('C06', tier, seed, log)
    cfgs = list(r['zoo_out'].keys())
    pairs = [(a, b) for a, b in (('tail', 'sm'), ('tail_safe', 'sm_safe'), ('trace', 'sm_trace')) if a in cfgs and b in cfgs]
    n, fails = config_equal(run, r, pairs, 'C06')
    nt, dis, bad_defs = tie_pass(run, r, modes=('n', 'p', 't'))
    report_tie(run, r, bad_defs, covered=fails)
    from props_lib import stack_check
    sc = stack_check(run, r, tier, seed, log)
    # the state-machine output must be one loop over a state enum: no per-state functions to call
    smbin = P.build_capture_sm()
    if smbin:
        import subprocess as _sp
        srcs_acc = [r['srcs'][i] for i in r['accepted']]
        o = _sp.run([smbin, '--code'], input='\n----\n'.join(srcs_acc) + '\n', capture_output=True, text=True).stdout
        k = -1
        nsm = 0
        for ln in o.split('\n'):
            if ln.startswith('CASE '):
                k = int(ln.split(' ')[1])
            elif ln.startswith('CODETEXT '):
                code = bytes.fromhex(ln.split(' ')[1]).decode('utf-8', 'replace')
                nsm += 1
                if re.search(r'fn\s+state\d+', code) or 'match state' not in code or 'loop {' not in code.replace('loop{', 'loop {'):
                    run.violation('sm-shape', dict(definition=srcs_acc[k], what='state-machine output defines/calls per-state functions or is not a single loop over the state enum'),
                                  key='smshape|' + srcs_acc[k])
                # frame model (Stack.lean): a transition of the state machine is `state = ..; continue;`, never a call that hands on
                # (lex, offset, context) - the only function taking that triple is `_get_action`
                callees = set(re.findall(r'(\w+)\s*\(\s*\$?lex\s*,\s*\$?offset\s*,\s*\$?context\s*\)', code)) - {'_get_action'}
                if callees:
                    run.violation('sm-shape', dict(definition=srcs_acc[k], callees=sorted(callees), what='state-machine output hands (lex, offset, context) to a function other than _get_action: a transition or restart rendered as a call costs a frame (Stack.callCost), the bound lexS_sm_peak does not describe this output'),
                                  key='smcall|' + srcs_acc[k])
        sc['sm_outputs_scanned'] = nsm
    nontriv = {(k[0], k[2]) for k, v in (streams_of(r, 'tail') or {}).items() if v.count(':') >= 2}
    run.coverage.update(dict(evaluations=n, distinct_nontrivial=len(nontriv),
                             rule='every request (ordinary, partial, and trace mode in the thorough tier) run on the tail-call and the state-machine build of the same definitions and compared verbatim, callbacks included (their invocations are visible through skips, errors and bumps); non-trivial = stream with >= 2 items',
                             samples=[dict(pairs=pairs)], stack=sc,
                             model_vs_impl_disagreements=dis, impl_vs_oracle_failures=len(fails)))
    run.assumptions += ['stack usage: proved for the frame-counting interpreter (Stack.lean: lexS_sm_peak, at most three frames for every graph, input and callback table; lexS_fst: it is the interpreter tied to the compiled lexers); what a frame costs in the compiled artefact (bytes, inlining) is rustc\'s: tied by the shape of the emitted text (transitions are `continue`, nothing but _get_action takes (lex, offset, context)), by the stack address seen by every callback invocation (constant in the state-machine builds) and by 4 MiB inputs on a 64 KiB stack',
                        'both code generators are rendered from one Generator whose only differences are state_transition/state_action/restart; the model has a single interpreter for both']
    return run.finish()


def check_c20(tier, seed, log=print):
    run, r = setup_run('C20', tier, seed, log)
    fails = set()
    tn = 0
    nontriv = set()
    samples = []
    worst = 0.0
    restarts_checked = 0
    for cfgname, outs in r['zoo_out'].items():
        if 'trace' not in cfgname or outs is None:
            continue
        for ln in outs:
            idx, mode, hx, v = split_line(ln)
            evs = parse_trace(v)
            tn += 1
            if evs is None:
                continue
            # split into attempts at N / T
            attempts = []
            cur = None
            for e in evs:
                if e[0] in ('N', 'T'):
                    cur = dict(start=e[1], reads=[])
                    attempts.append(cur)
                elif e[0] == 'R' and cur is not None:
                    cur['reads'].append(e[1])
            if len(attempts) >= 3:
                nontriv.add((idx, hx))
            # last sentence of the property (theorem lexFromI_nextPos): Lexer::next is entered at 0 and then exactly at the end
            # of each item produced - re-reading starts at the end of the item just produced
            items_, final_, marker_ = parse_stream(v)
            if marker_ is None and final_ is not None:
                npos = [e[1] for e in evs if e[0] == 'N']
                restarts_checked += 1
                if npos != [0] + [it[3] for it in items_]:
                    fails.add(idx)
                    run.violation('restart', rep_of(r, idx, cfgname, mode, hx, observed=v, next_positions=npos, item_ends=[it[3] for it in items_],
                                                    what='a call of next does not begin at the end of the item just produced'),
                                  key='restart|%s|%s' % (r['corpus'][idx].origin, hx))
                    continue
            for a in attempts:
                rd = a['reads']
                msg = None
                if any(rd[i] > rd[i + 1] for i in range(len(rd) - 1)):
                    msg = 'read offsets decrease within one attempt: %s' % rd
                elif rd and rd[0] < a['start']:
                    msg = 'read before the attempt start'
                elif rd and len(rd) > 4 * (rd[-1] + 1 - a['start']) + 8:
                    msg = '%d reads for %d bytes examined' % (len(rd), rd[-1] + 1 - a['start'])
                if rd:
                    worst = max(worst, len(rd) / float(rd[-1] + 1 - a['start']))
                if msg:
                    fails.add(idx)
                    run.violation('backtrack', rep_of(r, idx, cfgname, mode, hx, observed=v, what=msg),
                                  key='%s|%s' % (r['corpus'][idx].origin, hx))
                    break
            if len(samples) < 4 and len(attempts) >= 3:
                samples.append(dict(definition=r['srcs'][idx], input_hex=hx, trace=v))
    nt, dis, bad_defs = tie_pass(run, r, modes=('t',))
    report_tie(run, r, bad_defs, covered=fails)
    run.coverage.update(dict(evaluations=tn, distinct_nontrivial=len(nontriv),
                             rule='real read traces of the compiled lexers (feature verif_trace) on transition-directed inputs, self-loop run lengths 0..17 and nested-repetition definitions; '
                                  'per attempt (from Next/Trivia to the next): offsets non-decreasing, not before the start, count <= 4*(bytes examined)+8; non-trivial = >= 3 attempts; the same traces must equal the model\'s predicted trace exactly',
                             samples=samples, worst_reads_per_byte=round(worst, 3), runs_with_next_positions_checked=restarts_checked,
                             model_vs_impl_disagreements=dis, impl_vs_oracle_failures=len(fails)))
    return run.finish()


# ---------------------------------------------------------------------------------------------
# C07 partial lexing
# ---------------------------------------------------------------------------------------------

def check_c07(tier, seed, log=print):
    run, r = setup_run('C07', tier, seed, log)
    lean = r['lean']
    corpus = r['corpus']
    fails = set()
    n = 0
    nontriv = set()
    samples = []
    eager_cmp = 0
    eager_tol = 0
    for cfgname in r['zoo_out']:
        if 'trace' in cfgname:
            continue
        st = streams_of(r, cfgname)
        if st is None:
            continue
        for idx, (chosen, fam) in r['pfx'].items():
            if any(l.cb in (20, 21, 22, 29) for l in corpus[idx].leaves):
                continue   # bumping callbacks look at the text after the match: their result legitimately depends on later input
            for S in chosen:
                full = st.get((idx, 'n', P.hexs(S)))
                if full is None:
                    continue
                fitems, ffinal, fmark = parse_stream(full)
                for k in range(len(S) + 1):
                    pr = S[:k]
                    pv = st.get((idx, 'p', P.hexs(pr)))
                    if pv is None:
                        continue
                    n += 1
                    pitems, pfinal, pmark = parse_stream(pv)
                    msg = None
                    if pmark is not None:
                        msg = 'marker ' + pmark
                    elif pitems != fitems[:len(pitems)]:
                        msg = 'items of the partial lexer are not a leading run of the one-shot items'
                    elif pfinal is None or pfinal[0] != pfinal[1]:
                        msg = 'span at None is not empty'
                    else:
                        q = pfinal[0]
                        lo = pitems[-1][3] if pitems else 0
                        hi = fitems[len(pitems)][2] if len(pitems) < len(fitems) else len(S)
                        if not (lo <= q <= hi):
                            msg = 'position at None (%d) is not between the last committed item end (%d) and the next item start (%d)' % (q, lo, hi)
                    if len(pitems) >= 1 and k < len(S):
                        nontriv.add((idx, P.hexs(pr), P.hexs(S)))
                    if msg:
                        fails.add(idx)
                        run.violation('partial', rep_of(r, idx, cfgname, 'p', P.hexs(pr), full_input_hex=P.hexs(S), split=k,
                                                        partial_stream=pv, oneshot_stream=full, what=msg),
                                      key='%s|%s|%d' % (corpus[idx].origin, P.hexs(S), k))
                    elif len(samples) < 4 and len(pitems) >= 2 and k < len(S):
                        samples.append(dict(definition=r['srcs'][idx], prefix_hex=P.hexs(pr), full_hex=P.hexs(S), partial=pv, oneshot=full))
                    # eagerness: the partial stream must equal the reference partial lexer (specLexP; specLexPC for look-around
                    # definitions whose waiting condition validates).  A look-around definition whose graph keeps a redundant late
                    # accept (certificate flag noP) may wait one byte longer than the reference: the property allows exactly that
                    sv = lean.get('%d PSPEC %s' % (idx, P.hexs(pr)))
                    cv = lean.get('%d CERT' % idx, '')
                    if sv is not None and sv != 'LOOK' and cv.startswith('OKL') and cv.endswith('noP'):
                        eager_tol += 1
                        sitems = parse_stream(sv)[0]
                        tmsg = None
                        if not msg and sitems[:len(pitems)] != pitems:
                            tmsg = 'the partial lexer committed an item the reference partial lexer does not commit on this buffer'
                        elif not msg and len(sitems) > len(pitems) and k < len(S):
                            nv = st.get((idx, 'p', P.hexs(S[:k + 1])))
                            if nv is not None:
                                nitems = parse_stream(nv)[0]
                                if nitems[:len(sitems)] != sitems:
                                    tmsg = 'an item determined by this buffer is still not committed one byte later'
                        if tmsg:
                            fails.add(idx)
                            run.violation('partial-eager', rep_of(r, idx, cfgname, 'p', P.hexs(pr), full_input_hex=P.hexs(S), partial_stream=pv, reference_partial=sv, what=tmsg),
                                          key='eagertol|%s|%s' % (corpus[idx].origin, P.hexs(pr)))
                    elif sv is not None and sv != 'LOOK':
                        eager_cmp += 1
                        if sv != pv and not msg:
                            fails.add(idx)
                            run.violation('partial-eager', rep_of(r, idx, cfgname, 'p', P.hexs(pr), partial_stream=pv, reference_partial=sv,
                                                                  what='partial lexer differs from the reference partial lexer (commits too early or waits although the item is determined)'),
                                          key='eager|%s|%s' % (corpus[idx].origin, P.hexs(pr)))
    # chunked feeding (last clause of the property; theorem C07_chunked_feeding): partial lexers over a schedule of growing buffers,
    # each resumed (bump) where the one before answered None, finished by an ordinary lexer, must reproduce the one-shot stream;
    # the same schedules through the model function Chunked.feed (tie)
    feed_stats = dict(schedules=0, with_several_cuts=0, model_disagreements=0, resliced_schedules=0, resliced_model_disagreements=0)
    for cfgname in r['zoo_out']:
        if 'trace' in cfgname:
            continue
        st = streams_of(r, cfgname)
        if st is None:
            continue
        for idx, fl in r.get('feeds', {}).items():
            if any(l.cb in (20, 21, 22, 29) for l in corpus[idx].leaves):
                continue
            for (t, S) in fl:
                fv = st.get((idx, 'f' + t, P.hexs(S)))
                full = st.get((idx, 'n', P.hexs(S)))
                if fv is None or full is None:
                    continue
                feed_stats['schedules'] += 1
                n += 1
                if ',' in t:
                    feed_stats['with_several_cuts'] += 1
                if parse_stream(fv)[:2] != parse_stream(full)[:2] or parse_stream(fv)[2] is not None:
                    fails.add(idx)
                    run.violation('chunked', rep_of(r, idx, cfgname, 'f' + t, P.hexs(S), buffer_lengths=t, chunked_stream=fv, oneshot_stream=full,
                                                    what='partial lexers over buffers of the given lengths (each resumed where the one before answered None) followed by an ordinary lexer do not reproduce the one-shot token stream'),
                                  key='feed|%s|%s|%s' % (corpus[idx].origin, P.hexs(S), t))
                mv = lean.get('%d FEED %s %s' % (idx, t, P.hexs(S)))
                if mv is not None and not same_stream(fv, mv):
                    feed_stats['model_disagreements'] += 1
                    if idx not in fails:
                        run.violation('tie', rep_of(r, idx, cfgname, 'f' + t, P.hexs(S), observed=fv, model=mv, what='chunked feeding: compiled lexers and the model function Chunked.feed disagree',
                                                    correspondence='Lexer::new_partial + bump + next over a schedule vs LogosModel.Chunked.feed'),
                                      no_input=True, key='feedtie|%s' % corpus[idx].origin)
                # the same schedule by re-slicing: lexers over src[q..k] (examples/json_reader.rs), spans moved by q
                # (theorem C07_chunked_feeding_resliced, model function Reslice.feedR)
                rv = st.get((idx, 'r' + t, P.hexs(S)))
                if rv is None:
                    continue
                feed_stats['resliced_schedules'] += 1
                if parse_stream(rv)[:2] != parse_stream(full)[:2] or parse_stream(rv)[2] is not None:
                    fails.add(idx)
                    run.violation('chunked-resliced', rep_of(r, idx, cfgname, 'r' + t, P.hexs(S), buffer_lengths=t, chunked_stream=rv, oneshot_stream=full,
                                                    what='partial lexers over the not yet lexed slice of buffers of the given lengths (a new lexer over src[q..k] after every None, spans moved by q) followed by an ordinary lexer over the rest do not reproduce the one-shot token stream'),
                                  key='feedr|%s|%s|%s' % (corpus[idx].origin, P.hexs(S), t))
                mv = lean.get('%d FEEDR %s %s' % (idx, t, P.hexs(S)))
                if mv is not None and not same_stream(rv, mv):
                    feed_stats['resliced_model_disagreements'] += 1
                    if idx not in fails:
                        run.violation('tie', rep_of(r, idx, cfgname, 'r' + t, P.hexs(S), observed=rv, model=mv, what='chunked feeding by re-slicing: compiled lexers and the model function Reslice.feedR disagree',
                                                    correspondence='Lexer::new_partial(&src[q..k]) + next over a schedule vs LogosModel.Reslice.feedR'),
                                      no_input=True, key='feedrtie|%s' % corpus[idx].origin)
    run.coverage['chunked_feeding'] = feed_stats
    # certificate for partial mode (theorem partial_eq_spec needs prefixOK on every certified pair)
    certp = dict(P=0, noP=0)
    for i in r['accepted']:
        v = lean.get('%d CERT' % i, '')
        if v.startswith('OKL'):
            flag = 'look_' + v.split(' ')[-1]
            certp[flag] = certp.get(flag, 0) + 1
        if v.startswith('OK '):
            flag = v.split(' ')[-1]
            certp[flag] = certp.get(flag, 0) + 1
            if flag == 'noP' and i not in fails:
                run.violation('certificate', dict(definition=r['srcs'][i], origin=corpus[i].origin, verdict=v,
                                                  what='prefixOKB rejected the captured graph: some certified state waits for input although no byte keeps a pattern viable (or the converse); theorem partial_eq_spec no longer applies',
                                                  theorem='Logos.partial_eq_spec (hypothesis ValidP via validPB_sound)'), no_input=True, key='certp|%s' % corpus[i].origin)
    nt, dis, bad_defs = tie_pass(run, r, modes=('p',))
    report_tie(run, r, bad_defs, covered=fails)
    run.coverage['partial_certificates'] = certp
    run.coverage['emitted_prefix_guard_vs_graph'] = emit_pass(run, r, 'C07', log)
    from props_lib import partial_api_histories
    run.coverage['partial_mode_through_api'] = partial_api_histories(run, tier, log)
    run.coverage.update(dict(evaluations=n, distinct_nontrivial=len(nontriv),
                             rule='for sampled inputs S of every accepted definition and every split point k: Lexer::new_partial over S[..k] vs the one-shot lexing of S by the same compiled lexer '
                                  '(leading run, empty span at None, position between committed end and next start), and vs the Lean reference partial lexer specLexP for look-free definitions; non-trivial = at least one item committed before a proper split',
                             samples=samples, eagerness_comparisons=eager_cmp, eagerness_one_byte_tolerance_comparisons=eager_tol,
                             model_vs_impl_disagreements=dis, impl_vs_oracle_failures=len(fails)))
    return run.finish()


# ---------------------------------------------------------------------------------------------
# C13 callbacks
# ---------------------------------------------------------------------------------------------

def check_c13(tier, seed, log=print):
    run, r = setup_run('C13', tier, seed, log)
    lean = r['lean']
    corpus = r['corpus']
    cbdefs = [i for i in r['accepted'] if any(l.cb for l in corpus[i].leaves) or corpus[i].errcb]
    fails = set()
    n = 0
    nontriv = set()
    samples = []
    kinds = {}
    for i in cbdefs:
        for l in corpus[i].leaves:
            if l.cb:
                kinds[l.cb] = kinds.get(l.cb, 0) + 1
    for cfgname in r['zoo_out']:
        if 'trace' in cfgname:
            continue
        st = streams_of(r, cfgname)
        if st is None:
            continue
        for (idx, mode, hx), v in st.items():
            if idx not in cbdefs or mode != 'n':
                continue
            n += 1
            sv = lean.get('%d SPEC %s' % (idx, hx))
            mv = lean.get('%d LEX n %s' % (idx, hx))
            ref = sv if sv not in (None, 'LOOK') else mv
            if '!c' in v or '!b' in v or 'Alt' in v:
                nontriv.add((idx, hx))
                if len(samples) < 5:
                    samples.append(dict(definition=r['srcs'][idx], input_hex=hx, stream=v))
            if ref != v:
                fails.add(idx)
                run.violation('callback', rep_of(r, idx, cfgname, mode, hx, observed=v, expected=ref,
                                                 what='stream differs from the reference lexer with the documented callback table'),
                              key='%s|%s' % (corpus[idx].origin, hx))
    # "a callback runs once for each match of that pattern that wins selection": the number of callback invocations during
    # a lexing (every zoo callback announces itself) against the reference lexer's count, and against the model of the generated lexer
    calls = dict(streams=0, invocations=0, tie_differences=0)
    for cfgname in r['zoo_out']:
        if 'trace' in cfgname:
            continue
        st = streams_of(r, cfgname)
        if st is None:
            continue
        for (idx, mode, hx), v in st.items():
            if mode != 'c':
                continue
            calls['streams'] += 1
            sv = lean.get('%d SPECCALLS %s' % (idx, hx))
            mv = lean.get('%d CALLS %s' % (idx, hx))
            ref = sv if sv not in (None, 'LOOK') else mv
            try:
                calls['invocations'] += int(v.rsplit('#', 1)[1])
            except (IndexError, ValueError):
                pass
            if ref is not None and ref != v and idx not in fails:
                fails.add(idx)
                run.violation('callback-count', rep_of(r, idx, cfgname, mode, hx, observed=v, expected=ref,
                                                       what='the number of callback invocations (after #) or the stream differs from the reference lexer: a callback did not run exactly once per winning match'),
                              key='calls|%s|%s' % (corpus[idx].origin, hx))
            if mv is not None and mv != v:
                calls['tie_differences'] += 1
    run.coverage['callback_invocations'] = calls
    nt, dis, bad_defs = tie_pass(run, r, modes=('n',))
    report_tie(run, r, {k: v for k, v in bad_defs.items() if k in cbdefs}, covered=fails)
    run.coverage.update(dict(evaluations=n, distinct_nontrivial=len(nontriv),
                             rule='definitions whose patterns carry callbacks of every supported return type (decision = pure function of the matched slice; bumping callbacks bump one ASCII byte) and an error callback; '
                                  'streams of the compiled lexers vs the reference lexer specLex instantiated with the documented table (construct); non-trivial = stream shows a custom error, an error-callback value or a callback-built token',
                             samples=samples, callback_kinds_used=kinds, definitions_with_callbacks=len(cbdefs),
                             model_vs_impl_disagreements=dis, impl_vs_oracle_failures=len(fails)))
    run.assumptions += ['callback bodies are executed, not modelled: the zoo implements the same pure decision function on both sides']
    # how an inline callback is emitted (D17): CallbackEmit.emitFixed vs the generated text
    import cbemittie
    run.coverage['inline_callback_emission_model'] = cbemittie.tie(run)
    return run.finish()


# ---------------------------------------------------------------------------------------------
# C12: str mode vs byte mode
# ---------------------------------------------------------------------------------------------
import copy, random as _random
import defs as D
import zoo as Z


def err_bytes(items):
    s = []
    for (k, nm, a, b) in items:
        if k == 'err':
            s.extend(range(a, b))
    return s


def check_c12(tier, seed, log=print):
    run = Run('C12', tier, seed)
    au = audit('C12', load_theorems('C12'))
    for pb in au['problems']:
        run.violation('proof', dict(theorem_audit=pb), no_input=True)
    P.build_harness()
    P.build_lean()
    R = _random.Random(seed)
    allb = [d for d in D.corpus(seed, 30 if tier == 'quick' else 200, dict(cb_p=0.15)) if d.utf8]
    # the definitions whose meaning could depend on the mode come first whatever the size of the corpus: subpatterns,
    # non-ASCII literals and classes, dots and negated classes
    def mode_sensitive(d):
        return bool(d.subpatterns) or any((not l.is_bytes) and (any(ord(ch) > 127 for ch in l.pat) or '.' in l.pat or '[^' in l.pat or '\\s' in l.pat or '\\w' in l.pat or '\\d' in l.pat)
                                          for l in d.leaves)
    # ... and the definitions whose callbacks bump: Lexer::bump goes through the source's own is_boundary, the one place where the two
    # source types decide differently at run time
    def bumps(d):
        return any(l.cb in (20, 21, 22, 29) for l in d.leaves)
    # (every hand-written mode-sensitive definition is taken, those with subpatterns first: twice already a definition added for a
    # missed change had slipped out of the quick selection again when others were added in front of it)
    ms = [d for d in allb if mode_sensitive(d) and not bumps(d)]
    ms_fixed = sorted([d for d in ms if d.origin.startswith('fixed:')], key=lambda d: not d.subpatterns)
    first = [d for d in allb if bumps(d)][:4] + ms_fixed + [d for d in ms if not d.origin.startswith('fixed:')]
    rest = [d for d in allb if not mode_sensitive(d) and not bumps(d)] + [d for d in allb if bumps(d)][4:]
    lim = max(22, 4 + len(ms_fixed) + 4) if tier == 'quick' else 140
    base = (first[: lim - 2] + rest)[:lim]
    twins = []
    for d in base:
        t = copy.deepcopy(d)
        t.utf8 = False
        t.origin = d.origin + ':bytes'
        twins.append(t)
    alld = base + twins
    srcs = [d.source('T%d' % i) for i, d in enumerate(alld)]
    caps = P.run_capture(srcs)
    nb = len(base)
    # the acceptance clause, position by position (regex, token, skip in three spellings, subpattern used / unused / completed):
    # a definition with a pattern written to match bytes that are not valid UTF-8 is refused as it stands (str input) and
    # accepted once `utf8 = false` is added
    import families as F
    fam = [c for c in F.fam_c04() if not c['meta']['closed']]
    hdr = F.HDR + '\n'
    fsrc = [c['src'] for c in fam] + [c['src'].replace(hdr, hdr + '#[logos(utf8 = false)]\n', 1) for c in fam]
    fcaps = P.run_capture(fsrc)
    acc_stats = dict(cases=len(fam), refused_as_str=0, accepted_with_utf8_false=0)
    for k, c in enumerate(fam):
        a, b = fcaps[k], fcaps[k + len(fam)]
        if a is None or b is None:
            continue
        if a.verdict == 'ACCEPT':
            run.violation('nonutf8-accepted', dict(definition=c['src'], family=c['family'],
                                                   what='a pattern written to match bytes that are not valid UTF-8 is accepted without utf8 = false'), key='c12acc|' + c['src'])
        else:
            acc_stats['refused_as_str'] += 1
        if b.verdict != 'ACCEPT':
            run.violation('bytes-mode-rejected', dict(definition=fsrc[k + len(fam)], family=c['family'], errors=b.errs[:2],
                                                      what='the same definition with utf8 = false is refused'), key='c12rej|' + c['src'])
        else:
            acc_stats['accepted_with_utf8_false'] += 1
    run.coverage['acceptance_by_mode'] = acc_stats
    pairs = [(i, i + nb) for i in range(nb) if caps[i].verdict == 'ACCEPT' and not caps[i].nodump]
    for (i, j) in pairs:
        if caps[j].verdict != 'ACCEPT':
            run.violation('mode-verdict', dict(definition=srcs[i], twin=srcs[j], twin_errors=caps[j].errs,
                                               what='a definition accepted in str mode is rejected with utf8 = false'), key='verdict|' + srcs[i])
    pairs = [(i, j) for (i, j) in pairs if caps[j].verdict == 'ACCEPT']
    same_graph = sum(1 for (i, j) in pairs if [l for l in caps[i].dump if l.startswith(('STATE', 'EDGE'))] == [l for l in caps[j].dump if l.startswith(('STATE', 'EDGE'))])
    # root must not have an edge on a continuation byte
    for (i, j) in pairs:
        for c in (caps[i], caps[j]):
            for (t, ranges) in c.states[c.root]['edges']:
                if any(lo <= 0xbf and hi >= 0x80 for lo, hi in ranges):
                    run.violation('root-continuation', dict(definition=srcs[i], what='root has an edge on a continuation byte: modes_agree does not apply'), no_input=True,
                                  key='rootcont|' + srcs[i])
    acc = sorted({i for p_ in pairs for i in p_})
    inputs = {}
    for (i, j) in pairs:
        gi, st = P.graph_inputs(caps[i], True)
        ri = [b for b in P.random_inputs(R, alld[i], 80) if P.is_valid_utf8(list(b))]
        inputs[i] = inputs[j] = sorted(set(gi) | set(ri))
    # second sentence of the property: in byte mode a pattern written for text never matches bytes that are not well-formed UTF-8.
    # The byte-mode twin of a definition accepted for str input has only such patterns, so on any bytes every Ok item it yields
    # has to be valid UTF-8: text with a character cut short by the end, stray lead / continuation / impossible bytes inside
    bad_inputs = {}
    for (i, j) in pairs:
        base = [b for b in inputs[i] if 0 < len(b) <= 24][:: max(1, len(inputs[i]) // 30)][:30]
        bad = set()
        for b in base:
            for t in (b'\xc3', b'\xe2\x82', b'\xf0\x9f\x98'):
                bad.add(b + t)
            for x in (b'\xff', b'\x80', b'\xe2', b'\xc0\xaf'):
                bad.add(b[:1] + x + b[1:])
                bad.add(b[:len(b) // 2 + 1] + x + b[len(b) // 2 + 1:])
        bad_inputs[j] = sorted(x for x in bad if not P.is_valid_utf8(list(x)))
    root = Z.write_zoo('zoo-modes-%s' % tier, alld, acc, nshards=8)
    builds = Z.build_all(root, ['tail'] if tier == 'quick' else ['tail', 'sm_safe'])
    evals = 0
    nontriv = set()
    samples = []
    tie_dis = 0
    lines = []
    for i in acc:
        lines += P.case_block(str(i), caps[i], alld[i])
        for b in inputs[i] + bad_inputs.get(i, []):
            lines.append('Q LEX n ' + P.hexs(b))
    lean = P.run_lean(lines, nproc=12)
    invalid_checked = 0
    for cfgname, b in builds.items():
        if not b['ok']:
            run.violation('zoo-build', dict(config=cfgname, stderr=b['stderr'][-2000:]), no_input=True)
            continue
        reqs = ['%d n %s' % (i, P.hexs(x)) for i in acc for x in inputs[i] + bad_inputs.get(i, [])]
        outs = Z.run_zoo(b['bin'], reqs, nproc=6)
        st = {}
        for ln in outs:
            idx, mode, hx, v = split_line(ln)
            st[(idx, hx)] = v
            mv = lean.get('%d LEX n %s' % (idx, hx))
            if not same_stream(v, mv):
                tie_dis += 1
        for j, bl in bad_inputs.items():
            for x in bl:
                v = st.get((j, P.hexs(x)))
                if v is None:
                    continue
                invalid_checked += 1
                items_ = parse_stream(v)
                for t in items_[0]:
                    if t[0] == 'ok' and not P.is_valid_utf8(list(x[t[2]:t[3]])):
                        run.violation('invalid-utf8-matched', dict(definition=srcs[j], config=cfgname, input_hex=P.hexs(x), byte_mode=v, token='%s:%d-%d' % (t[1], t[2], t[3]),
                                                                   token_bytes=P.hexs(x[t[2]:t[3]]),
                                                                   what='a byte-mode lexer whose patterns are all written for text (the definition is accepted for str input) yields a token over bytes that are not well-formed UTF-8'),
                                      key='invalid|%s|%s' % (srcs[j], P.hexs(x)))
                        break
        for (i, j) in pairs:
            for x in inputs[i]:
                hx = P.hexs(x)
                a, bb = st.get((i, hx)), st.get((j, hx))
                if a is None or bb is None:
                    continue
                evals += 1
                ia, ib = parse_stream(a), parse_stream(bb)
                oka = [t for t in ia[0] if t[0] == 'ok']
                okb = [t for t in ib[0] if t[0] == 'ok']
                multi = any(c >= 128 for c in x)
                if multi and any(t[0] == 'err' for t in ia[0]):
                    nontriv.add((i, hx))
                if oka != okb or err_bytes(ia[0]) != err_bytes(ib[0]) or ia[2] or ib[2]:
                    run.violation('modes-differ', dict(definition=srcs[i], twin=srcs[j], config=cfgname, input_hex=hx, input_text=x.decode('utf-8', 'replace'),
                                                       str_mode=a, byte_mode=bb, what='Ok tokens or the set of error bytes differ between str and byte mode'),
                                  key='modes|%s|%s' % (srcs[i], hx))
                elif len(samples) < 4 and multi and a != bb:
                    samples.append(dict(definition=srcs[i], input_hex=hx, str_mode=a, byte_mode=bb))
    if tie_dis:
        run.violation('tie', dict(what='%d streams differ between compiled lexers and the interpreter model' % tie_dis), no_input=True)
    run.coverage.update(dict(obligations=au['obligations'], discharged=au['discharged'], theorems=au['names'], axioms=au['axioms'],
                             checker_cmd=au['checker_cmd'], kernel_recheck=au.get('kernel_recheck'), trusted_base=TRUSTED_BASE,
                             evaluations=evals, distinct_nontrivial=len(nontriv), definition_pairs=len(pairs), identical_graphs=same_graph, byte_mode_runs_on_ill_formed_text=invalid_checked,
                             rule='every str-mode corpus definition is compiled a second time with utf8 = false; both lexers run on the same valid UTF-8 inputs (transition-directed + samples); Ok items with spans and the list of bytes covered by errors must coincide; '
                                  'captured graphs compared; root checked for continuation-byte edges; non-trivial = multi-byte input with an error item',
                             samples=samples, model_vs_impl_disagreements=tie_dis))
    run.assumptions += ['byte-mode definitions on arbitrary (invalid) bytes are covered by C01/C02 (corpus has utf8 = false definitions with non-UTF-8 inputs)',
                        'acceptance of non-UTF-8 patterns only with utf8 = false: C04 (utf8ClosedB per leaf) and C19 (nonutf8 family)']
    return run.finish()
