"""Checks of the properties decided on token streams of compiled lexers (C01, C02, C03, ...)."""
import os, sys, json, re
sys.path.insert(0, os.path.dirname(os.path.abspath(__file__)))
from common import Run, audit, load_theorems, TRUSTED_BASE
import lexrun as LR
import pipeline as P

ITEM = re.compile(r'^(!?)([A-Za-z0-9_]+):(\d+)-(\d+)$')
FINAL = re.compile(r'^\.(\d+)-(\d+)$')


def parse_stream(s):
    """-> (items [(kind 'ok'|'err', name, s, e)], final (s,e) or None, marker or None)"""
    items, final, marker = [], None, None
    for tok in s.split(' '):
        if not tok or tok == '|':
            break
        m = ITEM.match(tok)
        if m:
            items.append(('err' if m.group(1) else 'ok', m.group(2), int(m.group(3)), int(m.group(4))))
            continue
        m = FINAL.match(tok)
        if m:
            final = (int(m.group(1)), int(m.group(2)))
            continue
        marker = tok
        break
    return items, final, marker


def split_line(ln):
    k, v = ln.split(' : ', 1) if ' : ' in ln else (ln.rstrip(' :'), '')
    idx, mode, hx = k.split(' ')
    return int(idx), mode, hx, v


def first_divergence(impl, spec):
    """index of first differing item, and the spec item there (None if spec has no more items)"""
    ii, si = impl[0], spec[0]
    for j in range(max(len(ii), len(si))):
        a = ii[j] if j < len(ii) else None
        b = si[j] if j < len(si) else None
        if a != b:
            return j, a, b
    if impl[1] != spec[1] or impl[2] != spec[2]:
        return len(ii), ('final', impl[1], impl[2]), ('final', spec[1], spec[2])
    return None


def stage(run, log):
    r = LR.lexrun(run.seed, run.tier, log=log)
    return r


def base_coverage(run, r, au, extra_rule=''):
    lean = r['lean']
    certs = {}
    for i in r['accepted']:
        v = lean.get('%d CERT' % i, '?').split(' ')[0]
        certs[v] = certs.get(v, 0) + 1
    nstates = sum(s['states'] for s in r['stats'].values())
    run.coverage.update(dict(
        obligations=au['obligations'] + certs.get('OK', 0) + certs.get('FAIL', 0),
        discharged=au['discharged'] + certs.get('OK', 0),
        theorem_obligations=au['obligations'], theorem_discharged=au['discharged'],
        theorems=au['names'], axioms=au['axioms'],
        validator_runs=sum(certs.values()), validator_ok=certs.get('OK', 0), validator_lookaround=certs.get('LOOK', 0),
        validator_unknown=certs.get('UNKNOWN', 0), validator_fail=certs.get('FAIL', 0),
        checker_cmd=au['checker_cmd'], trusted_base=TRUSTED_BASE,
        definitions=len(r['corpus']), definitions_accepted=len(r['accepted']),
        configs=list(r['zoo_out'].keys()), graph_states=nstates,
        stage_cached=r.get('cached', False), stage_key=r['key'],
    ))


def check_stream_props(prop, tier, seed, log=print):
    """C01 / C02 / C03 share one comparison pass; each reports only its own class of failure."""
    run = Run(prop, tier, seed)
    au = audit(prop, load_theorems(prop))
    for pb in au['problems']:
        run.violation('proof', dict(theorem_audit=pb), no_input=True)
    r = stage(run, log)
    lean = r['lean']
    corpus, srcs, caps = r['corpus'], r['srcs'], r['caps']
    base_coverage(run, r, au)
    evals = 0
    nontrivial = set()
    model_dis = 0
    oracle_fail = 0
    samples = []
    tie_reported = set()
    cert_fail_defs = [i for i in r['accepted'] if lean.get('%d CERT' % i, '').startswith('FAIL')]
    oracle_fail_defs = set()
    for cfgname, outs in r['zoo_out'].items():
        if outs is None:
            run.violation('zoo-build', dict(config=cfgname, stderr=r['builds'][cfgname]['stderr'],
                                            what='an accepted definition does not compile'), no_input=True)
            continue
        for ln in outs:
            idx, mode, hx, v = split_line(ln)
            if mode != 'n':
                continue
            evals += 1
            impl = parse_stream(v)
            mv = lean.get('%d LEX n %s' % (idx, hx))
            sv = lean.get('%d SPEC %s' % (idx, hx))
            if len(impl[0]) >= 2 or any(k == 'err' for k, *_ in impl[0]):
                nontrivial.add((idx, hx))
            if len(samples) < 5 and len(impl[0]) >= 3:
                samples.append(dict(definition=srcs[idx], input_hex=hx, config=cfgname, stream=v))
            rep = dict(definition=srcs[idx], origin=corpus[idx].origin, config=cfgname, input_hex=hx,
                       input_text=bytes.fromhex(hx if hx != '-' else '').decode('utf-8', 'replace'),
                       observed=v, model=mv, expected_by_reference_lexer=sv)
            # --- property oracles, directly on the implementation's output ---
            if prop == 'C03':
                bad = c03_predicate(impl, len(bytes.fromhex(hx if hx != '-' else '')))
                if bad:
                    oracle_fail += 1
                    oracle_fail_defs.add(idx)
                    run.violation('tiling', dict(rep, what=bad), key='%s|%s' % (corpus[idx].origin, hx))
            if sv is not None and sv != 'LOOK':
                spec = parse_stream(sv)
                dv = first_divergence(impl, spec)
                if dv is not None:
                    j, a, b = dv
                    cls = 'C01'
                    if b is not None and b[0] == 'err':
                        cls = 'C02'
                    elif b is not None and b[0] == 'final' and a is not None and a[0] == 'final':
                        cls = 'C03'
                    if impl[2] in ('HANG', 'LOOP', 'NOTSTICKY'):
                        cls = 'C03'
                    if cls == prop:
                        oracle_fail += 1
                        oracle_fail_defs.add(idx)
                        run.violation('oracle', dict(rep, first_divergence=dict(index=j, observed=a, expected=b)),
                                      key='%s|%s' % (corpus[idx].origin, hx))
            # --- tie: implementation vs interpreter model ---
            if mv != v:
                model_dis += 1
                if idx not in tie_reported and idx not in oracle_fail_defs:
                    tie_reported.add(idx)
    # broken ties / obligations without a failing input for this property
    for idx in sorted(tie_reported - oracle_fail_defs):
        run.violation('tie', dict(definition=srcs[idx], origin=corpus[idx].origin,
                                  what='compiled lexer and interpreter model (Lean walk) disagree on some input of this definition; '
                                       'the reference-lexer oracle of this property found no failing input',
                                  correspondence='T-B implementation vs LogosModel.graphLex'), no_input=True,
                      key='tie|%s' % corpus[idx].origin)
    for idx in cert_fail_defs:
        if idx not in oracle_fail_defs:
            run.violation('certificate', dict(definition=srcs[idx], origin=corpus[idx].origin,
                                              verdict=lean.get('%d CERT' % idx),
                                              what='validB rejected the captured graph: theorem lex_eq_spec no longer applies to this definition',
                                              theorem='Logos.lex_eq_spec (hypothesis Valid via validB_sound)'), no_input=True,
                          key='cert|%s' % corpus[idx].origin)
    if prop == 'C03':
        c03_extra(run, r, log)
    run.coverage.update(dict(evaluations=evals, distinct_nontrivial=len(nontrivial),
                             rule='(definition, input) pairs run through compiled lexers in every configuration; inputs are transition-directed '
                                  '(access string of every graph state + probe bytes / EOI, self-loop run lengths 0..17) plus pattern samples and random strings; '
                                  'non-trivial = stream has >= 2 items or an error item; distinct by (definition, input)',
                             samples=samples, model_vs_impl_disagreements=model_dis, impl_vs_oracle_failures=oracle_fail,
                             input_stats={str(k): v for k, v in list(r['stats'].items())[:12]}))
    run.assumptions += ['look-around definitions are covered by the graph-level theorems and the implementation-vs-model tie only (spec-level theorems are stated for the look-free fragment)',
                        'quantifier over definitions is sampled (corpus); per validated definition the theorem covers every input']
    return run.finish()


def c03_predicate(impl, n):
    items, final, marker = impl
    if marker is not None:
        return 'marker ' + marker
    pos = 0
    for (k, name, s, e) in items:
        if not (s < e):
            return 'empty item %s:%d-%d' % (name, s, e)
        if s < pos:
            return 'overlapping item at %d' % s
        if e > n:
            return 'item beyond input'
        pos = e
    if final is None:
        return 'no final None'
    if final != (n, n):
        return 'final span %s != input length %d' % (final, n)
    return None


def c03_extra(run, r, log):
    """every definition with a nullable leaf must be rejected; EmptyMatch diagnostics name only nullable leaves"""
    lean_lines = []
    idxs = []
    for i, c in enumerate(r['caps']):
        if c is not None and not c.nodump:
            lean_lines += P.case_block(str(i), c, None)
            lean_lines.append('Q NULLABLE')
            idxs.append(i)
    ans = P.run_lean(lean_lines, nproc=4)
    bad = 0
    checked = 0
    for i in idxs:
        c = r['caps'][i]
        v = ans.get('%d NULLABLE' % i, '')
        flags = v.split(' ') if v else []
        if not flags or 'L' in flags:
            continue
        checked += 1
        has_null = '1' in flags
        if has_null and c.verdict == 'ACCEPT':
            bad += 1
            run.violation('nullable-accepted', dict(definition=r['srcs'][i], nullable_leaves=flags,
                                                    what='a pattern can match the empty string but the derive accepted the definition'),
                          key='nullable|%s' % r['corpus'][i].origin)
        empties = sorted(g[1] for g in c.gerrs if g and g[0] == 1)
        for l in empties:
            if l < len(flags) and flags[l] != '1':
                bad += 1
                run.violation('emptymatch-wrong-leaf', dict(definition=r['srcs'][i], leaf=l, nullable_leaves=flags),
                              key='emptyleaf|%s' % r['corpus'][i].origin)
    run.coverage['nullable_decisions_checked'] = checked
