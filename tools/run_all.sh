#!/bin/sh
# usage: tools/run_all.sh [quick|thorough]  -- run every check once, print one line per property
T="${1:-quick}"
cd "$(dirname "$0")/.."
for p in C01 C02 C03 C04 C05 C06 C07 C08 C09 C10 C11 C12 C13 C14 C15 C16 C17 C18 C19 C20; do
  s=$(date +%s)
  ./check $p --tier $T > /tmp/run_all_$p.out 2>&1
  rc=$?
  e=$(date +%s)
  echo "$p exit=$rc $((e-s))s $(grep -c '^VIOLATION' /tmp/run_all_$p.out) violations $(grep -c '^KNOWN-FINDING' /tmp/run_all_$p.out) known"
done
