"""Common machinery of the checks: theorem audit, evidence, violations, known findings."""
import os, sys, json, re, subprocess, time, hashlib

VERIF = os.path.dirname(os.path.dirname(os.path.abspath(__file__)))
LEAN = os.path.join(VERIF, 'lean')
ALLOWED_AXIOMS = {'propext', 'Classical.choice', 'Quot.sound'}
FORBIDDEN = re.compile(r'\b(sorry|admit|native_decide|bv_decide|implemented_by|unsafe)\b|^axiom\s|maxHeartbeats\s+0', re.M)

TRUSTED_BASE = [
    "Lean 4.33 kernel; axioms allowed: propext, Classical.choice, Quot.sound (audited with #print axioms); no sorry/admit/native_decide/added axioms",
    "the Lean model is hand-written; its tie to /repo is the correspondence run of this check (real derive via the verif_hooks capture, compiled lexers of the zoo, logos runtime), not a proof",
    "compiled Lean code (validators, interpreter, reference lexer) is executed by the Lean runtime, not the kernel; the theorems about it are kernel-checked",
    "regex-syntax's parser and Utf8Sequences lowering define the pattern language (HIR dump is taken after parsing); rustc/LLVM and the quote! rendering are executed, not modelled",
]


def strip_comments(src):
    src = re.sub(r'/-.*?-/', '', src, flags=re.S)
    src = re.sub(r'--.*', '', src)
    return src


def audit(prop, theorems):
    """theorems: list of dict(module=..., name=...). Returns dict(obligations, discharged, problems, axioms, names)."""
    t0 = time.time()
    mods = sorted({t['module'] for t in theorems})
    problems = []
    p = subprocess.run(['lake', 'build'] + mods, cwd=LEAN, capture_output=True, text=True)
    if p.returncode != 0:
        problems.append('lake build failed: ' + (p.stdout + p.stderr)[-1500:])
    if "declaration uses 'sorry'" in p.stdout + p.stderr:
        problems.append('a declaration uses sorry')
    # forbidden constructs in the sources of the whole library (outside comments)
    for dp, dn, fn in os.walk(os.path.join(LEAN, 'LogosModel')):
        for f in fn:
            if f.endswith('.lean'):
                src = strip_comments(open(os.path.join(dp, f)).read())
                m = FORBIDDEN.search(src)
                if m:
                    problems.append('forbidden construct %r in %s' % (m.group(0), f))
    adir = os.path.join(VERIF, 'work', 'audit')
    os.makedirs(adir, exist_ok=True)
    af = os.path.join(adir, 'Audit%s.lean' % prop)
    with open(af, 'w') as fh:
        for m in mods:
            fh.write('import %s\n' % m)
        for t in theorems:
            fh.write('#print axioms %s\n' % t['name'])
    p = subprocess.run(['lake', 'env', 'lean', af], cwd=LEAN, capture_output=True, text=True)
    out = p.stdout + p.stderr
    axioms = {}
    discharged = 0
    flat = re.sub(r'\s+', ' ', out)
    for t in theorems:
        n = t['name']
        m = re.search(r"'%s' depends on axioms: \[([^\]]*)\]" % re.escape(n), flat)
        if m:
            ax = {a.strip() for a in m.group(1).split(',') if a.strip()}
        elif re.search(r"'%s' does not depend on any axioms" % re.escape(n), flat):
            ax = set()
        else:
            problems.append('theorem %s not found / not checked' % n)
            continue
        axioms[n] = sorted(ax)
        if ax <= ALLOWED_AXIOMS:
            discharged += 1
        else:
            problems.append('theorem %s uses axioms %s' % (n, sorted(ax - ALLOWED_AXIOMS)))
    # thorough tier: the compiled modules holding the property's theorems are replayed by leanchecker, the toolchain's independent
    # re-checker of .olean files (every declaration goes through the kernel again, outside the elaborator that produced it)
    recheck = None
    if os.environ.get('VERIF_TIER_EFFECTIVE') == 'thorough' and mods and not problems:
        t1 = time.time()
        p = subprocess.run(['lake', 'env', 'leanchecker'] + mods, cwd=LEAN, capture_output=True, text=True)
        recheck = dict(modules=mods, exit=p.returncode, secs=round(time.time() - t1, 1))
        if p.returncode != 0:
            problems.append('leanchecker rejected a module: ' + (p.stdout + p.stderr)[-800:])
    if problems:
        discharged = min(discharged, len(theorems) - 1) if len(theorems) else 0
    return dict(obligations=len(theorems), discharged=discharged if not problems else discharged, problems=problems,
                axioms=axioms, names=[t['name'] for t in theorems], secs=time.time() - t0, kernel_recheck=recheck,
                checker_cmd='cd /verif/lean && lake build %s && lake env lean work/audit/Audit%s.lean  (#print axioms per theorem)' % (' '.join(mods), prop))


def load_theorems(prop):
    reg = json.load(open(os.path.join(VERIF, 'theorems.json')))
    return reg.get(prop, [])


def load_known():
    p = os.path.join(VERIF, 'known_findings.json')
    if not os.path.exists(p):
        return dict(findings=[], fixed=[])
    return json.load(open(p))


class Run:
    """one check run: collects violations, writes evidence"""

    def __init__(self, prop, tier, seed):
        self.prop, self.tier, self.seed = prop, tier, seed
        self.t0 = time.time()
        self.violations = []
        self.known_hits = []
        self.coverage = {}
        self.assumptions = []
        self.known = load_known()

    def violation(self, kind, replay, no_input=False, key=None):
        """kind: short slug; replay: dict written to the replay file; key: identity for known findings"""
        for kf in self.known.get('findings', []):
            if kf['property'] == self.prop and key is not None and kf.get('key') == key:
                if key not in [k for k, _ in self.known_hits]:
                    self.known_hits.append((key, kf.get('what', '')))
                return
        rdir = os.path.join(VERIF, 'replays', self.prop)
        os.makedirs(rdir, exist_ok=True)
        name = '%s-%s-%d.json' % (kind, hashlib.sha256(json.dumps(replay, sort_keys=True, default=str).encode()).hexdigest()[:10], len(self.violations))
        path = os.path.join(rdir, name)
        replay = dict(replay, property=self.prop, kind=kind, seed=self.seed, tier=self.tier,
                      rerun='cd /verif && VERIF_SEED=%d ./check %s --tier %s' % (self.seed, self.prop, self.tier))
        json.dump(replay, open(path, 'w'), indent=1, default=str)
        self.violations.append((path, no_input))

    def finish(self, level='proof'):
        ev = dict(property_id=self.prop, tier=self.tier, seed=self.seed, level=level, coverage=self.coverage,
                  assumptions=self.assumptions, wall_s=round(time.time() - self.t0, 2), violations=len(self.violations))
        os.makedirs(os.path.join(VERIF, 'evidence'), exist_ok=True)
        json.dump(ev, open(os.path.join(VERIF, 'evidence', self.prop + '.json'), 'w'), indent=1, default=str)
        for key, what in self.known_hits:
            print('KNOWN-FINDING: property=%s %s' % (self.prop, what or key))
        shown = 0
        # violations that come with a failing input are listed first
        for path, no_input in sorted(self.violations, key=lambda x: bool(x[1])):
            if shown < 20:
                print('VIOLATION property=%s replay=%s%s' % (self.prop, path, ' no-failing-input-found' if no_input else ''))
            shown += 1
        if self.violations:
            print('%s: %d violation(s)' % (self.prop, len(self.violations)))
            return 1
        print('%s: ok (%s tier, %.1fs)' % (self.prop, self.tier, time.time() - self.t0))
        return 0
