#!/bin/sh
# usage: tools/run_seeds.sh <seed> ...   -- run every quick check with each seed; print non-ok lines
cd "$(dirname "$0")/.."
for S in "$@"; do
  for p in C01 C02 C03 C04 C05 C06 C07 C08 C09 C10 C11 C12 C13 C14 C15 C16 C17 C18 C19 C20; do
    VERIF_SEED=$S ./check $p > /tmp/seed_${S}_$p.out 2>&1
    rc=$?
    if [ $rc -ne 0 ]; then echo "seed $S $p exit=$rc $(grep -c '^VIOLATION' /tmp/seed_${S}_$p.out) violations: $(grep '^VIOLATION' /tmp/seed_${S}_$p.out | head -2 | tr '\n' ' ')"; fi
  done
  echo "seed $S done"
done
