"""Shared stages: harness build, capture, input generation, Lean driver."""
import os, subprocess, sys, random, json, time, hashlib
from collections import deque

VERIF = os.path.dirname(os.path.dirname(os.path.abspath(__file__)))
HARNESS = os.path.join(VERIF, 'harness')
LEAN = os.path.join(VERIF, 'lean')
WORK = os.path.join(VERIF, 'work')
ENV = dict(os.environ, CARGO_NET_OFFLINE='true')


def sh(cmd, **kw):
    return subprocess.run(cmd, capture_output=True, text=True, **kw)


def build_harness():
    p = sh(['cargo', 'build', '--offline'], cwd=HARNESS, env=ENV)
    if p.returncode != 0:
        raise RuntimeError('harness build failed:\n' + p.stderr[-3000:])
    return os.path.join(HARNESS, 'target', 'debug')


def build_capture_sm():
    """capture binary with logos-codegen's state_machine_codegen feature"""
    tdir = os.path.join(HARNESS, 'target-sm')
    p = sh(['cargo', 'build', '--offline', '-p', 'capture', '--features', 'sm', '--target-dir', tdir], cwd=HARNESS, env=ENV)
    if p.returncode != 0:
        return None
    return os.path.join(tdir, 'debug', 'capture')


def build_lean(targets=('logosmodel',)):
    p = sh(['lake', 'build'] + list(targets), cwd=LEAN)
    if p.returncode != 0:
        raise RuntimeError('lake build failed:\n' + p.stdout[-3000:] + p.stderr[-3000:])
    return os.path.join(LEAN, '.lake', 'build', 'bin', 'logosmodel')


def unhexs(h):
    return bytes.fromhex(h).decode('utf-8', 'replace')


class Cap:
    """result of running the real derive on one definition"""

    def __init__(self):
        self.verdict = None      # ACCEPT | REJECT | PANIC | LEXERR
        self.errs = []
        self.code = None
        self.codetext = None
        self.dump = []           # raw dump lines (DEF..END)
        self.raw = []            # RAWDEF / RSTATE / REDGE lines (graph before the passes)
        self.nodump = True
        self.utf8 = True
        self.root = 0
        self.leaves = []         # (prio, kind, hascb, name)
        self.states = []         # dict(early, accept, eoi, edges=[(target, [(lo,hi)])])
        self.gerrs = []
        self.csrc = []           # (unicode, ignore_case, regex source) per call of Pattern::compile (hook lines CSRC)
        self.strip = None
        self.stripchk = None
        self.codevalid = None
        self.panic_msg = None

    def err_classes(self):
        return sorted({classify_err(e) for e in self.errs})


def classify_err(msg):
    m = msg
    if 'can match the empty string' in m:
        return 'empty'
    if 'can match simultaneously' in m:
        return 'ambiguous'
    if 'can match invalid UTF-8' in m:
        return 'nonutf8'
    if 'unbounded greedy dot' in m:
        return 'greedy'
    if 'not found' in m and 'Subpattern' in m:
        return 'undef_subpattern'
    if 'universal start state' in m:
        return 'nostart'
    if 'named fields' in m or 'only supports variants with one field' in m:
        return 'variant_shape'
    if 'regex parse error' in m or 'error compiling' in m:
        return 'regex_error'
    return 'other'


def _limits():
    import resource
    resource.setrlimit(resource.RLIMIT_AS, (2 << 30, 2 << 30))


def run_capture(sources, code=False, strip=False, isolated=()):
    """`isolated`: indices of cases to run in a process of their own (expected to exhaust resources)."""
    if isolated:
        iso = set(isolated)
        rest_idx = [i for i in range(len(sources)) if i not in iso]
        rest = run_capture([sources[i] for i in rest_idx], code, strip)
        res = [None] * len(sources)
        for i, c in zip(rest_idx, rest):
            res[i] = c
        for i in iso:
            res[i] = run_capture([sources[i]], code, strip)[0]
        return res
    return _run_capture(sources, code, strip)


def _run_capture(sources, code=False, strip=False):
    """run the real derive (library entry point) on every source. A case that kills the process
    (abort, out of memory under a 2 GiB address-space limit, > 120 s) gets the verdict CRASH."""
    binp = os.path.join(HARNESS, 'target', 'debug', 'capture')
    args = [binp] + (['--code'] if code else []) + (['--strip'] if strip else [])

    def attempt(srcs, timeout):
        try:
            p = subprocess.run(args, input='\n----\n'.join(srcs) + '\n', capture_output=True, text=True, timeout=timeout, preexec_fn=_limits)
            return p.returncode, p.stdout
        except subprocess.TimeoutExpired:
            return -999, ''
    rc, out = attempt(sources, 900)
    if rc != 0:
        # find the culprit(s): run in halves, then singly
        res = [None] * len(sources)

        def solve(lo, hi):
            if lo >= hi:
                return
            rc, out = attempt(sources[lo:hi], 120 if hi - lo == 1 else 600)
            if rc == 0:
                for k, c in enumerate(_parse_capture(out, hi - lo)):
                    res[lo + k] = c
            elif hi - lo == 1:
                c = Cap()
                c.verdict = 'CRASH'
                c.panic_msg = 'capture process died with status %s (abort / out of memory / timeout)' % rc
                res[lo] = c
            else:
                mid = (lo + hi) // 2
                solve(lo, mid)
                solve(mid, hi)
        solve(0, len(sources))
        return res
    return _parse_capture(out, len(sources))


def _parse_capture(stdout, n):
    class _P:
        pass
    p = _P()
    p.stdout = stdout
    sources = [None] * n
    caps = {}
    cur = None
    pending_strip = {}
    pending_chk = {}
    for ln in p.stdout.split('\n'):
        t = ln.split(' ')
        if t[0] == 'STRIP':
            pending_strip[int(t[1])] = t[2]
        elif t[0] == 'STRIPCHK':
            pending_chk[int(t[1])] = 'OK' if t[2] == 'OK' else unhexs(t[3]) if len(t) > 3 else 'BAD'
        elif t[0] == 'CASE':
            cur = Cap()
            cur.verdict = t[2]
            if t[2] in ('PANIC', 'LEXERR') and len(t) > 3:
                cur.panic_msg = unhexs(t[3])
            caps[int(t[1])] = cur
            if int(t[1]) in pending_strip:
                cur.strip = pending_strip[int(t[1])]
                cur.stripchk = pending_chk.get(int(t[1]))
        elif cur is None:
            continue
        elif t[0] == 'ERR':
            cur.errs.append(unhexs(t[1]) if len(t) > 1 else '')
        elif t[0] == 'CODE':
            cur.code = t[2]
        elif t[0] == 'CODEVALID':
            cur.codevalid = t[1] == '1'
        elif t[0] == 'CODETEXT':
            cur.codetext = unhexs(t[1])
        elif t[0] == 'NODUMP':
            cur.nodump = True
        elif t[0] == 'DEF':
            cur.nodump = False
            cur.utf8 = t[1] == '1'
            cur.root = int(t[4])
            cur.dump.append(ln)
        elif t[0] == 'LEAF':
            cur.leaves.append((int(t[2]), int(t[3]), int(t[4]), t[5]))
            cur.dump.append(ln)
        elif t[0] in ('HIR', 'SRC'):
            cur.dump.append(ln)
        elif t[0] in ('RAWDEF', 'RSTATE', 'REDGE', 'RMATCH', 'DFADEF', 'DROW'):
            # the graph before the passes of Graph::new; kept apart so that every other consumer sees the dump as before
            cur.raw.append(ln)
        elif t[0] == 'STATE':
            cur.states.append(dict(early=int(t[2]), accept=int(t[3]), eoi=int(t[4]), edges=[]))
            cur.dump.append(ln)
        elif t[0] == 'EDGE':
            nums = list(map(int, t[4:]))
            cur.states[int(t[1])]['edges'].append((int(t[2]), list(zip(nums[0::2], nums[1::2]))))
            cur.dump.append(ln)
        elif t[0] == 'GERR':
            cur.gerrs.append(list(map(int, t[1:])))
            cur.dump.append(ln)
        elif t[0] == 'CSRC':
            cur.csrc.append((t[1] == '1', t[2] == '1', bytes.fromhex(t[3]) if len(t) > 3 else b''))
        elif t[0] == 'END':
            cur.dump.append(ln)
    return [caps.get(i) for i in range(len(sources))]


def is_valid_utf8(b):
    try:
        bytes(b).decode('utf-8')
        return True
    except UnicodeDecodeError:
        return False


TAILS = [[], [0x80], [0xbf], [0xa0], [0x90], [0x80, 0x80], [0xa0, 0x80], [0x90, 0x80], [0xbf, 0xbf],
         [0x80, 0x80, 0x80], [0x90, 0x80, 0x80], [0xbf, 0xbf, 0xbf], [0x8f, 0xbf, 0xbf]]


def complete_utf8(b):
    for t in TAILS:
        if is_valid_utf8(b + t):
            return b + t
    return None


PROBES = [0, 9, 10, 32, 0x2f, 0x30, 0x39, 0x40, 0x41, 0x5a, 0x5f, 0x60, 0x61, 0x62, 0x63, 0x64, 0x65, 0x7a, 0x7b,
          0x7f, 0x80, 0x8f, 0x90, 0x9f, 0xa0, 0xa9, 0xbf, 0xc0, 0xc2, 0xc3, 0xdf, 0xe0, 0xe4, 0xed, 0xef, 0xf0,
          0xf4, 0xf5, 0xff]


def access_strings(cap):
    """shortest byte strings leading from the root to every state of the captured graph"""
    st = cap.states
    access = {cap.root: []}
    q = deque([cap.root])
    while q:
        s = q.popleft()
        for (t, ranges) in st[s]['edges']:
            if t not in access:
                c = next((x for lo, hi in ranges for x in (0x61, 0x62, 0x63, 0x64, 0x30, 0x20) if lo <= x <= hi), None)
                if c is None:
                    c = next((x for lo, hi in ranges for x in range(lo, hi + 1) if 32 <= x < 127), ranges[0][0])
                access[t] = access[s] + [c]
                q.append(t)
    return access


def leaf_samples(cap):
    """for every leaf, the shortest string(s) on which the graph accepts it (by state: `accept` and `early` marks)"""
    acc = access_strings(cap)
    out = {}
    for s_, a in sorted(acc.items(), key=lambda kv: (len(kv[1]), kv[0])):
        st = cap.states[s_]
        for key in ('accept', 'early'):
            l = st.get(key)
            if l is not None and l >= 0 and a:
                out.setdefault(l, [])
                if len(out[l]) < 2 and bytes(a) not in out[l]:
                    out[l].append(bytes(a))
    return out


def sequence_inputs(cap, utf8, limit=400):
    """whole tokens next to each other: w·w, w·w·w and w·w·v, w·v, v·w·w for the shortest matches w, v of every pair of leaves
    (a match repeated directly before the match of another pattern - which may begin with the same text)"""
    sm = leaf_samples(cap)
    ws = [w for l in sorted(sm) for w in sm[l]]
    out = []
    for w in ws:
        out += [w + w, w + w + w]
        for v in ws:
            if v != w:
                out += [w + v, w + w + v, v + w + w]
    out = sorted(set(b for b in out if len(b) <= 24 and (not utf8 or is_valid_utf8(list(b)))))
    if len(out) > limit:
        out = out[:: max(1, len(out) // limit)]
    return out


def graph_inputs(cap, utf8, all_bytes=False, max_states=400):
    """transition-directed inputs from the captured graph: access(s)·b and self-loop run lengths"""
    st = cap.states
    if not st:
        return [], dict(states=0, pairs=0)
    access = {cap.root: []}
    q = deque([cap.root])

    def pick(ranges):
        for lo, hi in ranges:
            for c in (0x61, 0x62, 0x63, 0x64, 0x30, 0x20):
                if lo <= c <= hi:
                    return c
        for lo, hi in ranges:
            for c in range(lo, hi + 1):
                if 32 <= c < 127:
                    return c
        return ranges[0][0]
    while q:
        s = q.popleft()
        for (t, ranges) in st[s]['edges']:
            if t not in access:
                access[t] = access[s] + [pick(ranges)]
                q.append(t)
    inputs = set()
    pairs = 0
    states = sorted(access)[:max_states]
    # prefixes: the shortest complete token, alone and followed by a blank
    done = [access[s] for s in sorted(access, key=lambda s: (len(access[s]), s)) if s != cap.root and (st[s]['early'] >= 0 or st[s]['accept'] >= 0)]
    prefixes = []
    if done:
        p0 = done[0]
        if not utf8 or complete_utf8(p0) == p0:
            prefixes = [p0, p0 + [0x20]]
    for s in states:
        acc = access[s]
        bs = set(PROBES)
        for (t, ranges) in st[s]['edges']:
            for lo, hi in ranges:
                for c in (lo - 1, lo, hi, hi + 1):
                    if 0 <= c <= 255:
                        bs.add(c)
        if all_bytes:
            bs = set(range(256))
        cand = [acc]  # EOI right here
        for b in sorted(bs):
            cand.append(acc + [b])
            pairs += 1
        # self loops: run lengths 0..17 then each exit
        for (t, ranges) in st[s]['edges']:
            if t == s:
                x = pick(ranges)
                if utf8 and x >= 128:
                    continue
                exits = [e for e in (0x21, 0x61, 0x62, 0x7a, 0x30) if not any(lo <= e <= hi for lo, hi in ranges)][:2]
                for k in range(0, 18):
                    cand.append(acc + [x] * k)
                    for e in exits:
                        cand.append(acc + [x] * k + [e])
        # the same walk started in the middle of the input (after a complete token and, where the definition has one, a
        # skipped byte): absolute and token-relative offsets differ there
        if prefixes:
            sub = [acc] + [acc + [b] for b in sorted(bs)[:: max(1, len(bs) // 5)]]
            for (t, ranges) in st[s]['edges']:
                if t == s:
                    x = pick(ranges)
                    if not (utf8 and x >= 128):
                        sub += [acc + [x] * k for k in (1, 7, 8, 9, 17)]
            for pre in prefixes:
                cand += [pre + c for c in sub]
        for c in cand:
            if utf8:
                c2 = complete_utf8(c)
                if c2 is None:
                    continue
                inputs.add(bytes(c2))
                inputs.add(bytes(c2) + b'a')
            else:
                inputs.add(bytes(c))
                inputs.add(bytes(c) + b'a')
    return sorted(inputs), dict(states=len(states), pairs=pairs)


_DICT = None


def source_dictionary():
    """byte strings that occur as literals in the runtime's and the generator's sources *as they are now* (string, byte-string,
    char and byte literals, arrays of small numbers, hex constants): a special case keyed on a magic value in the input
    (a byte order mark, a shebang, a particular byte) can only be exercised by inputs that contain the value, and the
    value has to be written somewhere in the code"""
    global _DICT
    if _DICT is not None:
        return _DICT
    import glob, re
    from textpipe import parse_lit
    toks = set()
    files = glob.glob('/repo/src/*.rs') + glob.glob('/repo/logos-codegen/src/generator/*.rs')
    for f in sorted(files):
        if 'verif' in os.path.basename(f):
            continue
        code = '\n'.join(l for l in open(f).read().split('\n') if not l.strip().startswith('//'))
        for m in re.finditer(r'b?"', code):
            lit = parse_lit(code, m.start())
            if lit is not None and 0 < len(lit[1]) <= 8:
                toks.add(lit[1])
        for m in re.finditer(r"b?'(?:\\u\{([0-9a-fA-F]{1,6})\}|\\x([0-9a-fA-F]{2})|\\(.)|([^'\\\n]))'", code):
            if m.group(1):
                try:
                    toks.add(chr(int(m.group(1), 16)).encode('utf-8'))
                except (ValueError, UnicodeEncodeError):
                    pass
            elif m.group(2):
                toks.add(bytes([int(m.group(2), 16)]))
            elif m.group(3):
                toks.add({'n': b'\n', 't': b'\t', 'r': b'\r', '0': b'\0'}.get(m.group(3), m.group(3).encode()))
            else:
                toks.add(m.group(4).encode('utf-8'))
        num = r'(?:0x[0-9a-fA-F]{1,2}|0b[01_]{1,9}|\d{1,3})(?:_?u8)?'
        for m in re.finditer(r'\[\s*((?:%s\s*,\s*)+%s)\s*,?\s*\]' % (num, num), code):
            vals = []
            for x in m.group(1).split(','):
                x = x.strip().replace('_u8', '').replace('u8', '').replace('_', '')
                v = int(x, 16) if x.startswith('0x') else int(x[2:], 2) if x.startswith('0b') else int(x)
                vals.append(v)
            if vals and all(v < 256 for v in vals) and len(vals) <= 8:
                toks.add(bytes(vals))
        for m in re.finditer(r'\b0x([0-9a-fA-F_]{2,16})\b', code):
            hx = m.group(1).replace('_', '')
            if len(hx) % 2 == 0 and len(hx) <= 16:
                b = bytes.fromhex(hx)
                toks.add(b)
                toks.add(b[::-1])
        for m in re.finditer(r'\b0b([01_]{8,9})\b', code):
            v = int(m.group(1).replace('_', ''), 2)
            if v < 256:
                toks.add(bytes([v]))
    # single printable ASCII bytes are in every alphabet and probe set already
    toks = {t for t in toks if len(t) >= 2 or t[0] >= 0x7f or t[0] < 0x20}
    _DICT = sorted(toks, key=lambda b: (len(b), b))[:40]
    return _DICT


def dictionary_inputs(R, d, base):
    """inputs carrying a dictionary entry at the start, in the middle and at the end of text the definition knows"""
    out = []
    base = [b for b in base if b][:3] or [b'a']
    for tok in source_dictionary():
        if d.utf8 and not is_valid_utf8(list(tok)):
            continue
        sample = R.choice(base)
        out.append(tok)
        out.append(tok + sample)
        out.append(sample + tok)
        out.append(sample + b' ' + tok + b' ' + sample)
    return out


def random_inputs(R, d, n):
    """strings over the definition's alphabet, samples from its patterns, lengths around 8/16"""
    alpha = d.alphabet() + ['a', 'b', ' ', 'é', '中', '😀', '0']
    out = []
    asts = [l.ast for l in d.leaves if l.ast is not None]
    for i in range(n):
        r = R.random()
        if r < 0.5 and asts:
            parts = []
            for _ in range(R.choice([1, 2, 3, 4, 6])):
                try:
                    parts.append(R.choice(asts).sample(R))
                except Exception:
                    parts.append('a')
                if R.random() < 0.3:
                    parts.append(R.choice(alpha))
            s = ''.join(parts)
        else:
            ln = R.choice([0, 1, 2, 3, 5, 7, 8, 9, 15, 16, 17, 24, 33])
            s = ''.join(R.choice(alpha) for _ in range(ln))
        b = s.encode('utf-8')
        if not d.utf8 and R.random() < 0.5:
            bb = bytearray(b)
            for _ in range(R.choice([1, 2])):
                pos = R.randrange(len(bb) + 1)
                bb.insert(pos, R.choice([0x80, 0xff, 0xc3, 0x00, 0xe4]))
            b = bytes(bb)
        out.append(b)
    # half-matched characters: a character sharing its leading byte(s) with one the definition knows but differing in
    # the last byte, directly followed by non-ASCII text the definition matches (an attempt that dies in the middle of
    # a character, then a multi-byte token) -- in str mode the error is rounded up to the next char boundary only
    na = [c for c in d.alphabet() if ord(c) >= 0x80]
    for c in na[:6]:
        e = c.encode('utf-8')
        for delta in (1, -1, 2):
            last = e[-1] + delta
            if 0x80 <= last <= 0xbf:
                try:
                    sib = (e[:-1] + bytes([last])).decode('utf-8')
                except UnicodeDecodeError:
                    continue
                for tail in (c * 3, c + 'é' + c, 'a' + c, c):
                    out.append((sib + tail).encode('utf-8'))
                    out.append(('a' + sib + tail).encode('utf-8'))
                break
    # near misses of every pattern: each proper prefix of a sample (an input ending mid-token) and the sample with one byte
    # replaced at the start, in the middle and at the end, alone and followed by text the definition knows
    tail_ = next((b for b in out if b), b'a')[:6]
    for a in asts:
        try:
            smp = a.sample(R).encode('utf-8')
        except Exception:
            continue
        if len(smp) < 2:
            continue
        cuts = list(range(1, len(smp))) if len(smp) <= 24 else sorted(set([1, 2, 7, 8, 9, 15, 16, 17, len(smp) // 2, len(smp) - 2, len(smp) - 1]))
        for k in cuts:
            pre = smp[:k]
            if d.utf8 and not is_valid_utf8(list(pre)):
                continue
            out.append(pre)
            out.append(pre + b' ' + tail_)
        for k in sorted(set([0, len(smp) // 2, len(smp) - 1, min(8, len(smp) - 1), min(9, len(smp) - 1)])):
            if smp[k] < 0x80:
                mut = smp[:k] + (b'~' if smp[k:k + 1] != b'~' else b'!') + smp[k + 1:]
                if not d.utf8 or is_valid_utf8(list(mut)):
                    out.append(mut)
                    out.append(mut + tail_)
    out += dictionary_inputs(R, d, out)
    return out


def hexs(b):
    return b.hex() if b else '-'


def case_block(name, cap, d=None):
    """case-file lines for the Lean driver"""
    lines = ['CASE ' + name]
    if cap.nodump:
        lines.append('NODUMP')
    lines += cap.dump
    if d is not None:
        for i, k in enumerate(d.cb_kinds()):
            if k:
                lines.append('CB %d %d' % (i, k))
        lines.append('ERRCB %d' % (1 if d.errcb else 0))
    return lines


def run_lean(lines, nproc=8):
    """lines: full case file (list of str). Splits by CASE across processes; returns dict (name, query) -> answer"""
    binp = os.path.join(LEAN, '.lake', 'build', 'bin', 'logosmodel')
    if nproc == 0:
        # one process, order preserved (queries that refer to several cases)
        p = subprocess.run([binp], input='\n'.join(lines) + '\n', capture_output=True, text=True)
        if p.returncode != 0:
            raise RuntimeError('lean driver failed: ' + p.stderr[-2000:])
        res = {}
        for ln in p.stdout.split('\n'):
            if ' : ' in ln:
                k, v = ln.split(' : ', 1)
                res[k] = v
            elif ln.endswith(' :'):
                res[ln[:-2]] = ''
        return res
    blocks = []
    cur = None
    for ln in lines:
        if ln.startswith('CASE '):
            cur = [ln]
            blocks.append(cur)
        elif cur is not None:
            cur.append(ln)
    # balance by number of lines
    blocks.sort(key=len, reverse=True)
    bins = [[] for _ in range(nproc)]
    sizes = [0] * nproc
    for b in blocks:
        i = sizes.index(min(sizes))
        bins[i].append(b)
        sizes[i] += len(b)
    from concurrent.futures import ThreadPoolExecutor

    def one(bs):
        if not bs:
            return ''
        text = '\n'.join('\n'.join(b) for b in bs) + '\n'
        p = subprocess.run([binp], input=text, capture_output=True, text=True)
        if p.returncode != 0:
            raise RuntimeError('lean driver failed: ' + p.stderr[-2000:])
        return p.stdout
    with ThreadPoolExecutor(nproc) as ex:
        outs = list(ex.map(one, bins))
    res = {}
    for o in outs:
        for ln in o.split('\n'):
            if ' : ' in ln:
                k, v = ln.split(' : ', 1)
                res[k] = v
            elif ln.endswith(' :'):
                res[ln[:-2]] = ''
    return res


def repo_tree_hash():
    """content hash of the parts of /repo the checks build from"""
    h = hashlib.sha256()
    roots = ['src', 'logos-codegen/src', 'logos-derive/src', 'logos-cli/src']
    files = ['Cargo.toml', 'Cargo.lock', 'logos-codegen/Cargo.toml', 'logos-derive/Cargo.toml', 'logos-cli/Cargo.toml']
    for r in roots:
        for dp, dn, fn in os.walk(os.path.join('/repo', r)):
            dn.sort()
            for f in sorted(fn):
                files.append(os.path.relpath(os.path.join(dp, f), '/repo'))
    for f in sorted(set(files)):
        p = os.path.join('/repo', f)
        if os.path.exists(p):
            h.update(f.encode())
            h.update(open(p, 'rb').read())
    return h.hexdigest()[:16]
