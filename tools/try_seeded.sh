#!/bin/sh
# usage: tools/try_seeded.sh <patch.diff> <PROP> [<PROP> ...]   -- apply a seeded change to /repo, run checks, undo
set -u
PATCH="$1"; shift
cd /verif
git -C /repo apply "$PATCH" || { echo "patch does not apply"; exit 2; }
for P in "$@"; do
  ./check "$P" > /tmp/try_$P.out 2>&1
  rc=$?
  echo "== $P exit=$rc  $(grep -c '^VIOLATION' /tmp/try_$P.out) violation lines; first: $(grep '^VIOLATION' /tmp/try_$P.out | head -1)"
done
git -C /repo checkout -- . ; git -C /repo clean -fdq
# the evidence files just written describe the changed tree: put the committed ones back
git -C /verif checkout -- evidence 2>/dev/null
git -C /repo status --short | head -3
