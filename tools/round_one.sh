#!/bin/sh
# usage: tools/round_one.sh <round> <PROP> [<PROP to check> ...]  -- confirm the change an agent left in /tmp/w<round>-<PROP>, keep its patch as
# /root/r<round>-<PROP>.diff and run the named checks (default: the property itself) against it in a private sandbox; log: /root/try-r<round>-<PROP>.log
R="$1"; P="$2"; shift; shift
[ $# -eq 0 ] && set -- "$P"
cd "$(dirname "$0")/.."
WT=/tmp/w$R-$P
tools/confirm_seeded.sh $WT > /root/confirm-r$R-$P.log 2>&1
(cd $WT && git add -N -- logos-codegen src logos-derive logos-cli 2>/dev/null; git diff -- logos-codegen src logos-derive logos-cli) > /root/r$R-$P.diff
SB=t$P tools/try_seeded_sb.sh /root/r$R-$P.diff "$@" > /root/try-r$R-$P.log 2>&1
