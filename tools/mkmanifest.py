#!/usr/bin/env python3
"""Regenerate /verif/MANIFEST.json from the per-property table below."""
import json, os, subprocess
VERIF = os.path.dirname(os.path.dirname(os.path.abspath(__file__)))

NOTE = ("Trusted: Lean kernel + axioms propext/Classical.choice/Quot.sound (audited per theorem); the hand-written model is tied to the code by the "
        "correspondence run of this check (capture hook in the real derive, compiled zoo lexers, logos runtime); regex-syntax parser and UTF-8 lowering; "
        "the Lean compiler for executing validators and the interpreter; ")

CLAIMS = {
 'C01': ("Theorem lex_eq_spec: for every (graph, definition) pair accepted by the proved validator validB and every input, the generated lexer's item sequence equals the reference maximal-munch/priority lexer, whose meaning in terms of Matches is given by scan_some/scan_finds; validB is run on the graph the real derive produces for every corpus definition; the interpreter model is tied to the compiled lexers (4 configurations) by a transition-directed differential run.",
         "definitions with look-around assertions are certified by the contextual chain (validCB + liveCertB, lex_eq_specC, C01_look_*; lookHolds is a hand transcription of regex-automata's LookMatcher tied by the PikeVM reference run); definitions are sampled.",
         "Lean theorem + proved per-definition certificate checker + model/implementation correspondence"),
 'C02': ("Same chain as C01; lex_eq_spec covers error items (end = max(stop offset, start+1) rounded up by find_boundary, restart at the end); scan_none states where an attempt stops (first byte after which no pattern is viable) and dead_stops that the graph walk cannot go past it; findBoundary_spec.",
         "look-around definitions: C02_look_error_stop via validCB + liveCertB (viability table proved exact); error *values* supplied by user callbacks are executed, not modelled.",
         "Lean theorem + proved certificate checker + correspondence on unmatched runs / truncated tokens"),
 'C03': ("graphLex_tiles: for every graph satisfying the decidable predicate WF (proved checker wfB, run on every captured graph) and every input, lexing terminates, items are non-empty, strictly increasing, inside the input and end at its length; win_none + Valid: an accepted (validated) definition has no nullable pattern; every corpus definition with a nullable leaf (Lean nullable on the captured HIR) must be rejected by the real derive; tiling predicate applied directly to every stream of the compiled lexers.",
         "graphLex_tiles_bump / partial_tiles_bump extend the tiling theorem to callbacks that bump within the remainder they are handed (BumpOK; zooCallback_bumpOK: the zoo's callbacks satisfy it); a bump that Lexer::bump rejects (out of range or inside a code point) is a panic and belongs to C15.",
         "Lean theorem over all well-formed graphs + proved WF checker + correspondence"),
 'C04': ("spans_on_boundaries: validated definition + every pattern's language within valid UTF-8 (proved checker utf8ClosedB, product of derivatives with the UTF-8 framing automaton, run on every leaf) + valid input => every item boundary is a char boundary; look-around definitions: spans_on_boundariesC with the contextual closure checker utf8ClosedCB (product of contextual derivatives with the framing automaton over every context); match_end_is_boundary; runner checks span/slice/remainder against is_char_boundary on every stream.",
         "acceptance is checked position by position (regex, token, skip in three spellings, subpattern used / unused / completed to a valid whole): every family definition written to match invalid UTF-8 must be rejected; the contextual closure check is sound but not complete (an undecided look-around leaf is covered by the runner-side boundary predicate only); bumping callbacks belong to C15.",
         "Lean theorem + proved UTF-8 closure checker + correspondence"),
 'C05': ("readChunk_some_iff / readSafe_eq_readChunk (the two builds of Source::read are one function), attemptI_reads_in_bounds (every read of every attempt on every graph hits iff inside the source), graphLex_tiles (spans within the source); default vs forbid_unsafe streams identical on inputs presented as prefixes of longer allocations; real read traces checked; direct Source::read differential in debug and release.",
         "raw pointer arithmetic is modelled by its guard, not verified.",
         "Lean theorems on the read model + build-vs-build and trace correspondence"),
 'C06': ("Both code generators are rendered from one Generator differing only in transition/restart syntax; the model has one interpreter (attemptI is literally the state machine loop) and interpLex_eq_graphLex relates it to the walk; tail-call and state-machine builds compared verbatim on all requests (streams, partial mode, traces in thorough); stack: long inputs on a small stack and no call to a state function in the state-machine output.",
         "stack clause: C06_state_machine_stack_constant / lexS_sm_peak (Stack.lean) - the interpreter with a frame counter never has more than three frames in use in the state-machine rendering, for every graph, input, callback table and number of consecutive skips, and returns what the tail-call rendering returns (lexS_fst); attemptS_tc_depth / nextLoopS_tc_skips: tail calls counted without frame reuse grow with transitions and skips. What a frame costs in the compiled artefact is rustc's: tied by the emitted text (transitions are `continue`; only _get_action takes (lex, offset, context)), by the stack address every callback invocation sees (spread 0 over millions of invocations in the state-machine builds; growth measured in the tail-call debug builds) and by 4 MiB inputs on a 64 KiB stack.",
         "Lean theorems (one interpreter for both renderings; frame bound for the state machine) + build-vs-build correspondence + stack-address and small-stack probes"),
 'C07': ("C07_partial_safe (every well-formed graph, look-around included, no certificate): the items a partial lexer yields before None are a leading run of the one-shot items on any extension of the buffer, its span at None is empty at a position from which one-shot lexing reproduces the remaining items; partial_terminates; partial_eq_spec / partial_eq_specC (validated definitions whose waiting condition also validates: prefixOKB / prefixOKCB): the partial lexer equals the reference partial lexer, which waits exactly as long as the outcome can still change (some byte keeps a pattern viable, or - with look-around - the winner at the current position depends on what follows); compiled partial lexers over every prefix S[..k] vs the one-shot lexing of S (leading run, empty span, restart position) and vs the reference partial lexer.",
         "a look-around definition whose graph keeps a redundant late accept (waiting condition does not validate; one such definition in the corpus) is checked against the property's tolerance instead: never commits before the reference, commits at the latest one byte after it; callbacks that bump or inspect the remainder are outside C07_partial_safe (executed, not modelled).",
         "Lean theorems (safety for all well-formed graphs; equality with a reference partial lexer under the certificate, with and without look-around) + all-split-points correspondence"),
 'C08': ("tie_witness / tieFreeB_sound: the Lean tie search over derivative vectors answers either with a witness string on which two patterns share the top priority, or with a closure proving that no string is matched by two top-priority patterns; both answers are checked by proved validators; the real derive's Disambiguation diagnostics (and the leaves they name) must agree in both directions for every corpus definition.",
         "look-around patterns are decided by the contextual versions (tieC_witness / tieFreeCB_sound: a tie is a string in a context); definitions rejected earlier (nullable pattern, no universal start state) are outside the comparison; definitions are sampled.",
         "Lean theorems (sound + complete tie decision per definition) + correspondence with the derive's diagnostics"),
 'C09': ("Hir.complexity is the documented rule as a Lean function on the captured HIR; complexity_le_twice_len: every string matched by a pattern is at least half its default priority long, hence literal_never_beaten; recorded priorities of every leaf (regex, skip, token, explicit) compared with the rule.",
         "the winner/ambiguity outcome for literal-vs-regex pairs is C01/C08.",
         "Lean theorem on the priority rule + per-leaf correspondence"),
 'C10': ("lit_language (a literal's language is its byte string) and equivB_sound (proved language-equivalence checker): every token/regex/skip with and without ignore(case) is paired with an independently written (?i:...) reference form and proved equivalent for all strings on the captured HIRs; sampled strings additionally against the regex crate; unescape_escape (Subst.lean): the text Literal::escape writes for a case-insensitive literal (str or byte string, every metacharacter, bytes above 0x7F as \\xNN) reads back as exactly the literal's bytes, and the predicted text is compared with what Pattern::compile receives.",
         "the Unicode case-folding tables themselves are regex-syntax's (trusted as the oracle the property names).",
         "proved equivalence checker per definition + regex-crate differential"),
 'C11': ("equivB_sound: every pattern with (?&name) references is proved equivalent (all strings) to the pattern obtained by independent inlining as a non-capturing group with the subpattern's own Unicode mode; undefined names must be rejected. Text level (Subst.lean, a model of Subpattern::new, Subpatterns::new and subst_subpatterns): build_eq_inline / leaf_eq_inline (for every list of subpatterns defined before use the sequential splice hands the regex parser exactly the recursive inlining of (?u:src) / (?-u:src), which does not depend on the order), subst_sealed_noRefs / leaf_noRefs (no reference survives the single pass), subst_none_iff_undefined; the model's predicted regex sources are compared with what Pattern::compile really receives (hook lines CSRC) for every family definition.",
         "partial by nature: group scoping is regex-syntax's; definitions are sampled; the test compile of a subpattern is a parameter of the text model.",
         "proved equivalence checker per definition"),
 'C12': ("modes_agree: one well-formed graph, no root edge on a continuation byte, matches ending on char boundaries (C04) => lexing as str and as [u8] gives the same Ok items with the same spans and the same list of bytes covered by errors (byte mode splits a rounded-up error into one-byte errors); every str-mode corpus definition is compiled a second time with utf8 = false and both compiled lexers are run on the same valid UTF-8 inputs; captured graphs compared; root checked.",
         "C12_modes_agree_validated / C12_modes_agree_validated_look discharge the boundary hypothesis of modes_agree by the certificate and the UTF-8 closure checkers; the acceptance clause has its own pass (every attribute position: refused as str, accepted with utf8 = false); byte-mode lexing of arbitrary bytes is part of C01/C02's corpus.",
         "Lean theorem for all graphs/inputs + twin-definition correspondence"),
 'C13': ("construct / constructSkip model every CallbackRetVal / SkipRetVal impl row by row; lex_eq_spec holds for every callback table, so skips, custom errors and emitted variants are those of the reference lexer; calls_eq_spec / calls_eq_specC: a validated lexer invokes callbacks exactly as often as the reference lexer (one invocation per winning match of a leaf with a callback), and the compiled lexers' invocation counts (every zoo callback announces itself) are compared with both; zoo definitions carry callbacks of every supported return type, an error callback and bumping callbacks.",
         "callback bodies are executed, not modelled (same pure decision on both sides).",
         "Lean theorem (for all callback tables) + correspondence with every return type"),
 'C14': ("Pool-of-lexers model of the public API (next, spanned next, bump, clone, morph); api_in_range: for two well-formed graphs over one source and any finite call sequence every lexer keeps start <= end <= len, so slice()/remainder() are total; clone_independent, morph_preserves, morph_twice, spanned_eq_manual; random histories run on the real Lexer (4 builds; span/slice/remainder/extras checked after every call) and on the model over the captured graphs of the same two token types.",
         "api_in_range_any extends api_in_range to partial lexers and to callbacks that bump within the remainder (BumpOK); extras are a constant carried along.",
         "Lean invariant over all call sequences + random-history correspondence in 4 builds"),
 'C15': ("bumpFixed_ok_iff, bumpFixed_preserves, after_any_bumps_safe: the repaired rule (checked_add, assert, then assign) succeeds exactly when the new end is representable, in range and on a boundary, and every sequence of bumps, successful or panicking, leaves a span for which slice()/remainder() are defined; bumpFound_* prove that the code as found violated this (kept as regression witnesses); real Lexer::bump exercised at boundary values in debug/release x default/forbid_unsafe under catch_unwind.",
         "the model treats usize as 64-bit; 32-bit targets are not exercised.",
         "Lean theorems on the bump rule + boundary-value correspondence in 4 builds"),
 'C16': ("Every hash-container use in logos-codegen has one of four shapes (sort by a unique key, membership only, singleton test, union of byte classes); each shape is a function of an arbitrary enumeration order proved permutation-invariant (sortByKey_perm, sortByKey_perm_of_injective, singletonSome_perm, contains_perm, mergeTables_perm); every corpus definition is generated on many threads in several fresh processes with both code generators and the hashes of generated code and captured graph must coincide; logos-cli twice + --check.",
         "partial: that every site has one of the modelled shapes is by inspection (sites listed in the evidence); process-level hash seeds are exercised, not enumerated.",
         "Lean permutation-invariance theorems per site shape + repeated-generation correspondence across threads/processes/generators"),
 'C17': ("stripFixed_entries / stripFixed_no_logos / stripFixed_id: the derive-list rewrite keeps exactly the entries that do not name Logos, path-qualified ones included, unchanged and in order (stripFound_counterexample: the code as found did not); check_never_writes, check_ok_iff, write_then_check_ok for the CLI's write/check logic; real strip_attributes output compared structurally (syn) with the input for generated enum sources; the real logos-cli binary driven through random write/check/corrupt/CRLF/delete sequences with file snapshots.",
         "--format (rustfmt) not exercised; 'denotes Logos' = last path segment is Logos.",
         "Lean theorems on the rewrite and CLI models + structural correspondence with the real binary"),
 'C18': ("Model of AttributeParser::next and parse_definition over abstract token trees; allNested_render (the tokenizer reads back exactly the items written, in any order), named_args_perm (every permutation of well-formed named arguments parses to the same canonical Definition), parseArgs_errors_iff (acceptance depends only on the multiset of arguments); group_then_assign_counterexample proves the code as found violated it; all permutations of every argument subset run through the real derive and compared (verdict, diagnostics, leaves, generated code), the model compared with the real parser on well-formed and malformed lists.",
         "permutation of #[logos(...)] items: for subpattern items build_perm / compileCalls_perm_items prove that any two orders keeping every subpattern defined before its use give the same regex source for every leaf (text model Subst.lean, tied by predicted-vs-real Pattern::compile sources); for the lifetime / type items TypeItems.fixed_perm (the repaired rule is order-independent; found_order_dependent for the code as found); for the remaining items equivalence is checked on captured leaves, the impl header and the error constructor (order-insensitive), not proved.",
         "Lean theorems on the tokenizer model + all-permutations correspondence"),
 'C19': ("greedyFixed_iff: the repaired greedy-dot check is equivalent to the declarative 'an unbounded greedy repetition of a dot occurs at some depth, possibly inside capture groups' (greedyFound_misses_*: the check as found was not); variantFixed_never_panics / variantFixed_accepts_only for the variant-shape decision; nullable_iff for the empty-match decision; shape_errors_iff / assemble_wellformed (Assemble.lean, the leaf assembly of generate: which variant shapes raise a diagnostic and which leaves result), tied by predicted leaf tables;  a malformed stream (variant shapes, duplicated and malformed arguments, nullable patterns, look-behind, unsupported features, greedy dots at every depth, undefined subpatterns, non-UTF-8 in str mode, argument-level mutations) runs through logos_codegen::generate under catch_unwind and through rustc as a real derive on stable.",
         "partial: the model covers logos's decision logic, not syn or rustc; one known finding (resource exhaustion on a{1001}{1001}{1001}) is recorded, not repaired.",
         "Lean theorems on the decision logic + malformed-stream correspondence through the library and through rustc"),
 'C20': ("attemptI_reads_monotone and attemptI_reads_linear hold for every graph (no well-formedness needed): within one attempt read offsets never decrease and reads <= 4*(bytes examined)+8; the real read traces (verif_trace) equal the model's predicted traces exactly and satisfy the same predicate directly.",
         "trace equality is a correspondence run on sampled inputs.",
         "Lean theorems for all graphs + exact trace correspondence"),
}


def main():
    props = [json.loads(l) for l in open(os.path.join(VERIF, 'properties.jsonl'))]
    checks, na = [], []
    for p in props:
        pid = p['id']
        if pid in CLAIMS:
            txt, partial, tech = CLAIMS[pid]
            checks.append(dict(property_id=pid, quick_cmd='./check %s --tier quick' % pid, thorough_cmd='./check %s --tier thorough' % pid,
                               evidence_file='/verif/evidence/%s.json' % pid, replay_cmd_template='./check %s --replay {path}' % pid,
                               engine='lean-model',
                               level_claimed=dict(category='proof', text=txt, design_ref='DESIGN.md section 4, ' + pid),
                               level_note=NOTE + partial, technique=tech))
        else:
            na.append(dict(property_id=pid, reason='check under construction in this session (model and theorems planned in DESIGN.md section 4); not yet claimed'))
    commits = subprocess.run(['git', '-C', '/repo', 'log', '--format=%h %s'], capture_output=True, text=True).stdout.split('\n')
    hooks = [c.split(' ')[0] for c in commits if 'verif hook' in c]
    m = dict(version=1, setup_cmd='./setup.sh',
             hooks=dict(guard='cargo features verif_hooks (logos-codegen) and verif_trace (logos)',
                        enable='harness and zoo crates depend on /repo by path with features verif_hooks / verif_trace enabled',
                        baseline_off_cmd='cd /repo && cargo test --workspace --no-fail-fast --offline',
                        source_commits=hooks, add_only=True),
             engines=[dict(name='lean-model', path='/verif/lean', serves_properties=sorted(CLAIMS),
                           kind_free_text='Lean 4 model + theorems + compiled line-protocol driver; Rust harness (capture, zoo, libcheck) for the correspondence')],
             checks=checks, not_applicable=na, notes='See DESIGN.md. ./check <ID> --tier quick|thorough ; replay: ./check <ID> --replay <file>')
    json.dump(m, open(os.path.join(VERIF, 'MANIFEST.json'), 'w'), indent=1)
    print('claimed', len(checks), 'not claimed', len(na))


if __name__ == '__main__':
    main()
