"""Predictive tie for the text pipeline in front of the regex parser (Lean: LogosModel/Subst.lean).

`extract(src)` reads the attributes of an enum source written by this harness (one attribute per line, the
forms the generators emit) into the model's input: the subpattern definitions in order, then the items
(skips first, then #[token]/#[regex] in variant order).  `requests`/`compare` turn that into `Q TEXTPIPE`
requests for the Lean driver and compare its answer (the predicted calls of Pattern::compile, in order,
with flags) with the CSRC lines of the capture hook.  A definition in a form the extractor does not know
is skipped and counted, never guessed."""
import re

_SIMPLE_ESC = {'n': 10, 't': 9, 'r': 13, '0': 0, '\\': 92, '"': 34, "'": 39}


def parse_lit(s, i):
    """a Rust string or byte-string literal at s[i:]; returns (kind 's'|'b', bytes, next index) or None"""
    kind = 's'
    if s.startswith('b"', i):
        kind = 'b'
        i += 1
    if i >= len(s) or s[i] != '"':
        return None
    i += 1
    out = bytearray()
    while i < len(s):
        ch = s[i]
        if ch == '"':
            return (kind, bytes(out), i + 1)
        if ch == '\\':
            if i + 1 >= len(s):
                return None
            e = s[i + 1]
            if e in _SIMPLE_ESC:
                out.append(_SIMPLE_ESC[e])
                i += 2
            elif e == 'x' and re.match(r'[0-9a-fA-F]{2}', s[i + 2:i + 4] or ''):
                v = int(s[i + 2:i + 4], 16)
                if kind == 's':
                    if v > 127:
                        return None
                    out.append(v)
                else:
                    out.append(v)
                i += 4
            elif e == 'u' and kind == 's':
                m = re.match(r'\{([0-9a-fA-F_]{1,8})\}', s[i + 2:])
                if not m:
                    return None
                out += chr(int(m.group(1).replace('_', ''), 16)).encode('utf-8')
                i += 2 + m.end()
            else:
                return None
        else:
            if kind == 'b' and ord(ch) > 127:
                return None
            out += ch.encode('utf-8')
            i += 1
    return None


_ICASE = re.compile(r'ignore\s*\(\s*case\s*\)')


def _icase(rest):
    if 'ignore' not in rest:
        return False
    if _ICASE.search(rest) and rest.count('ignore') == 1:
        return True
    return None


def split_items(body):
    """the comma-separated items of one #[logos(...)] attribute (commas inside literals and brackets do not split)"""
    parts, cur, depth, i = [], [], 0, 0
    while i < len(body):
        ch = body[i]
        if ch == '"' or body.startswith('b"', i):
            lit = parse_lit(body, i)
            if lit is None:
                return None
            cur.append(body[i:lit[2]])
            i = lit[2]
            continue
        if ch in '([{':
            depth += 1
        elif ch in ')]}':
            depth -= 1
            if depth < 0:
                return None
        if ch == ',' and depth == 0:
            parts.append(''.join(cur))
            cur = []
        else:
            cur.append(ch)
        i += 1
    if depth != 0:
        return None
    if ''.join(cur).strip():
        parts.append(''.join(cur))
    return parts


def extract(src):
    subs, skips, leaves = [], [], []
    for raw in src.split('\n'):
        ln = raw.strip()
        if ln.startswith('#[logos('):
            body = ln[len('#[logos('):]
            if not body.endswith(')]'):
                return None
            parts = split_items(body[:-2])
            if parts is None:
                return None
            for body in parts:
                body = body.strip()
                m = re.match(r'subpattern\s+([A-Za-z0-9_]+)\s*=\s*', body)
                if m:
                    lit = parse_lit(body, m.end())
                    if lit is None or body[lit[2]:].strip() != '':
                        return None
                    subs.append((m.group(1).encode(), lit[0], lit[1]))
                    continue
                m = re.match(r'skip\s*\(\s*', body)
                if m:
                    lit = parse_lit(body, m.end())
                    if lit is None:
                        return None
                    rest = body[lit[2]:]
                    if not rest.rstrip().endswith(')') or '"' in rest:
                        return None
                    ic = _icase(rest)
                    if ic is None:
                        return None
                    skips.append(('r', lit[0], ic, lit[1]))
                    continue
                m = re.match(r'skip\s+', body)
                if m:
                    lit = parse_lit(body, m.end())
                    if lit is None or body[lit[2]:].strip() != '':
                        return None
                    skips.append(('r', lit[0], False, lit[1]))
                    continue
                if 'subpattern' in body or 'skip' in body:
                    return None
            continue
        for (attr, k) in (('#[token(', 't'), ('#[regex(', 'r')):
            if ln.startswith(attr):
                # several attributes may share a line: "#[token("a")] #[regex("b")] A,"
                pos = 0
                while True:
                    mt = re.compile(r'#\[(token|regex)\(\s*').search(ln, pos)
                    if not mt:
                        break
                    lit = parse_lit(ln, mt.end())
                    if lit is None:
                        return None
                    close = ln.find(')]', lit[2])
                    if close < 0:
                        return None
                    rest = ln[lit[2]:close]
                    if '"' in rest:          # a second literal (callback strings, nested forms): not a form we read
                        return None
                    ic = _icase(rest)
                    if ic is None:
                        return None
                    leaves.append(('t' if mt.group(1) == 'token' else 'r', lit[0], ic, lit[1]))
                    pos = close + 2
                break
        else:
            if ('#[token' in ln or '#[regex' in ln) and not ln.startswith('//'):
                return None
    return dict(subs=subs, items=skips + leaves)


def request(pipe):
    args = ['sub:%s:%s:%s' % (n.hex(), k, v.hex()) for (n, k, v) in pipe['subs']]
    args += ['item:%s:%s:%d:%s' % (t, k, 1 if ic else 0, v.hex()) for (t, k, ic, v) in pipe['items']]
    return 'Q TEXTPIPE ' + ' '.join(args) if args else None


def parse_answer(ans):
    """'errs=N u i hex;u i hex' -> (errs, [(u, i, bytes)])"""
    if ans is None or not ans.startswith('errs='):
        return None
    head, _, rest = ans.partition(' ')
    calls = []
    for part in rest.split(';'):
        part = part.strip()
        if not part:
            continue
        t = part.split(' ')
        hx = t[2] if len(t) > 2 and t[2] != '-' else ''
        calls.append((t[0] == '1', t[1] == '1', bytes.fromhex(hx)))
    return int(head[5:]), calls


_LAST = {}


def tie(cases, caps, run_lean):
    """returns evidence dict: compared / same / differing (with samples) / skipped"""
    lines = ['CASE tp']
    want = {}
    skipped = 0
    for i, c in enumerate(cases):
        cap = caps[i]
        if cap is None or cap.nodump or cap.verdict != 'ACCEPT' or cap.errs:
            continue
        pipe = extract(c['src'])
        if pipe is None:
            skipped += 1
            continue
        rq = request(pipe)
        if rq is None:
            continue
        want[i] = rq
        lines.append(rq)
    ans = run_lean(lines, nproc=1) if want else {}
    same, diff, samples, with_subs, calls = 0, 0, [], 0, 0
    pairs = []
    for i, rq in want.items():
        got = parse_answer(ans.get('tp ' + rq[2:]))
        real = list(getattr(caps[i], 'csrc', []))
        if got is not None and got[0] == 0 and got[1] == real:
            same += 1
            calls += len(real)
            if '(?&' in cases[i]['src']:
                with_subs += 1
        else:
            diff += 1
            if got is not None and len(got[1]) == len(real):
                for (mu, mi, ms), (ru, ri, rs) in zip(got[1], real):
                    if ms != rs or mu != ru or mi != ri:
                        pairs.append(dict(definition=cases[i]['src'], family=cases[i].get('family'), model=(mu, mi, ms), code=(ru, ri, rs)))
            if len(samples) < 5:
                samples.append(dict(definition=cases[i]['src'], model=None if got is None else [(u, ic, s.decode('utf-8', 'replace')) for (u, ic, s) in got[1]],
                                    code=[(u, ic, s.decode('utf-8', 'replace')) for (u, ic, s) in real]))
    _LAST['pairs'] = pairs
    return dict(compared=same + diff, same=same, differing=diff, with_references=with_subs, compile_calls=calls, unread_forms=skipped, differing_samples=samples,
                what='calls of Pattern::compile (source text and flags, in order) predicted by the Lean text-pipeline model (Subst.compileCalls: Literal::escape, '
                     'Subpattern::new, Subpatterns::new, subst_subpatterns) vs the CSRC lines of the hook; recorded, not reported (a harmless rewrite of the splice may change the text)')


def distinguish(pairs, refmatch, limit=40):
    """a broken text tie is turned into a failing input where possible: for every regex source on which the model (the property's
    reading: escape / scoped inclusion of the subpattern source) and the code differ, look for a string the two texts treat
    differently under the regex crate.  Returns [(pair, witness bytes, model_matches, code_matches)]."""
    import itertools
    found = []
    for pr in pairs[:limit]:
        (mu, mi, ms), (ru, ri, rs) = pr['model'], pr['code']
        try:
            chars = set((ms + rs).decode('utf-8', 'replace'))
        except Exception:
            chars = set()
        alpha = [c for c in sorted(chars) if c.isalnum() or c in ' \t\n,;:-_=+'][:8] + [c.swapcase() for c in sorted(chars) if c.isalpha()][:4] + [' ', 'a', 'A', '\t', '\n', 'é', '0', ',']
        alpha = list(dict.fromkeys(alpha))[:14]
        words = [''] + [''.join(t) for k in (1, 2, 3) for t in itertools.product(alpha, repeat=k)]
        reqs = ['P %d %d %s' % (1 if mu else 0, 1 if mi else 0, ms.hex() or '-')] + ['W ' + (w.encode('utf-8').hex() or '-') for w in words]
        reqs += ['P %d %d %s' % (1 if ru else 0, 1 if ri else 0, rs.hex() or '-')] + ['W ' + (w.encode('utf-8').hex() or '-') for w in words]
        outs = refmatch(reqs)
        n = len(words)
        a, b = outs[1:1 + n], outs[2 + n:2 + 2 * n]
        if outs[0] != 'OK' or outs[1 + n] != 'OK':
            if (outs[0] == 'OK') != (outs[1 + n] == 'OK'):
                found.append((pr, None, outs[0], outs[1 + n]))
            continue
        for w, x, y in zip(words, a, b):
            if x != y and x in '01' and y in '01':
                found.append((pr, w.encode('utf-8'), x, y))
                break
    return found
